"""Run ONE condition of ONE harness module under CrossHair, restricted to ONE cube, and print a JSON result.

usage: python -m vlib.cube_runner <harness-module> <condition-fn> <json: {"pre": [...], "timeout": s, "mode": "check|reach|mutant:<name>", "seed": n}>

The condition is a plain function of primitive-typed arguments whose docstring carries PEP316 `pre:` lines and
`post: _ == ""` (the function returns "" when the property held on that input, otherwise a failure signature).
A cube adds further `pre:` lines.  mode=reach replaces the result by "REACHED" when the harness' reach flag was
set (vacuity twin: must be refuted).  mode=mutant:<name> applies the named in-memory mutation of the real code
before analysis (sensitivity twin: must be refuted).
"""
import json
import os
import random
import sys
import time

HERE = os.path.dirname(os.path.dirname(os.path.abspath(__file__)))
if HERE not in sys.path:
    sys.path.insert(0, HERE)


def build_condition(mod, fn, extra_pre, mode):
    """Generate a wrapper module whose function carries the condition's docstring + the cube's extra `pre:` lines.

    CrossHair reads PEP316 conditions from *source text*, so the wrapper is written to .work/ and imported.
    """
    import hashlib
    import importlib.util
    import inspect
    doc = fn.__doc__ or ""
    lines = [ln.strip() for ln in doc.strip().splitlines() if ln.strip()]
    # harness docstrings use PRE:/POST: (upper case) so that the harness function itself carries no CrossHair
    # contract: a contracted callee would be short-circuited ("assume its postcondition") by the engine.
    pres = ["pre:" + ln[4:] for ln in lines if ln.startswith("PRE:")]
    posts = ["post:" + ln[5:] for ln in lines if ln.startswith("POST:")]
    raises = []
    pres += ["pre: " + p for p in extra_pre]
    if not posts:
        posts = ['post: _ == ""']
    sig = inspect.signature(fn)
    params = []
    for n, p in sig.parameters.items():
        ann = p.annotation
        params.append("%s: %s" % (n, ann.__name__ if isinstance(ann, type) else str(ann).replace("typing.", "")))
    call = ", ".join(sig.parameters)
    body = ["from typing import *", "from %s import *" % mod.__name__, "import %s as _m" % mod.__name__,
            "from vlib import world as _w", "",
            "def %s(%s) -> str:" % (fn.__name__, ", ".join(params)), '    """']
    body += ["    " + ln for ln in pres + raises + posts]
    body += ['    """', "    _r = _m.%s(%s)" % (fn.__name__, call)]
    if mode == "reach":
        body += ["    if _w.REACH['flag']:", "        return 'REACHED'"]
    body += ["    return _r", ""]
    src = "\n".join(body)
    h = hashlib.sha1(src.encode()).hexdigest()[:12]
    d = os.path.join(HERE, ".work", "cubes")
    os.makedirs(d, exist_ok=True)
    path = os.path.join(d, "cube_%s_%s_%d.py" % (fn.__name__, h, os.getpid()))   # per process: twins share a source text
    with open(path, "w") as f:
        f.write(src)
    spec = importlib.util.spec_from_file_location("cube_%s_%s" % (fn.__name__, h), path)
    m = importlib.util.module_from_spec(spec)
    sys.modules[spec.name] = m
    spec.loader.exec_module(m)
    return getattr(m, fn.__name__)


def main():
    modname, fname, spec = sys.argv[1], sys.argv[2], json.loads(sys.argv[3])
    seed = int(spec.get("seed", 0))
    random.seed(seed)
    t0 = time.time()
    out = {"module": modname, "cond": fname, "pre": spec.get("pre", []), "mode": spec.get("mode", "check")}
    try:
        import importlib
        from vlib import world
        world.install_engine_guards()
        mod = importlib.import_module(modname)
        fn = getattr(mod, fname)
        mode = spec.get("mode", "check")
        if mode.startswith("mutant:"):
            mod.MUTANTS[mode.split(":", 1)[1]]()
        import crosshair.statespace as ss
        from crosshair.core_and_libs import analyze_function, run_checkables
        from crosshair.options import AnalysisOptionSet, AnalysisKind
        import z3

        stats = {"queries": 0, "solver_s": 0.0, "unknown": 0}
        orig = ss.solver_is_sat

        def counting(solver, *exprs):
            t = time.time()
            stats["queries"] += 1
            try:
                return orig(solver, *exprs)
            except ss.UnknownSatisfiability:
                stats["unknown"] += 1
                raise
            finally:
                stats["solver_s"] += time.time() - t
        ss.solver_is_sat = counting
        for m in list(sys.modules.values()):
            if m is not None and getattr(m, "solver_is_sat", None) is orig:
                try:
                    m.solver_is_sat = counting
                except Exception:
                    pass

        target = build_condition(mod, fn, spec.get("pre", []), mode)
        timeout = float(spec.get("timeout", 60))
        opts = AnalysisOptionSet(analysis_kind=[AnalysisKind.PEP316], report_all=True,
                                 per_condition_timeout=timeout, per_path_timeout=float(spec.get("path_timeout", 30)),
                                 max_uninteresting_iterations=10 ** 9)
        checkables = analyze_function(target, opts)
        if not checkables:
            out.update(verdict="HARNESS_ERROR", message="no conditions parsed")
        else:
            msgs = run_checkables(checkables)
            out["messages"] = [{"state": m.state.name, "message": m.message} for m in msgs]
            states = [m.state.name for m in msgs]
            if any(s in ("POST_FAIL", "EXEC_ERR", "POST_ERR") for s in states):
                out["verdict"] = "COUNTEREXAMPLE"
            elif any(s in ("SYNTAX_ERR", "IMPORT_ERR") for s in states):
                out["verdict"] = "HARNESS_ERROR"
            elif "PRE_UNSAT" in states:
                out["verdict"] = "PRE_UNSAT"
            elif "CANNOT_CONFIRM" in states:
                out["verdict"] = "CANNOT_CONFIRM"
            elif states and all(s == "CONFIRMED" for s in states):
                out["verdict"] = "CONFIRMED"
            else:
                out["verdict"] = "HARNESS_ERROR"
        out.update(paths=world.COUNT["paths"], reached=world.COUNT["reached"], queries=stats["queries"],
                   solver_s=round(stats["solver_s"], 3), unknown=stats["unknown"],
                   cf_swallowed=world.COUNT["cf_swallowed"])
        out["functions"] = sorted(world.FUNCS)
    except BaseException as e:  # noqa
        import traceback
        out.update(verdict="HARNESS_ERROR", message="".join(traceback.format_exception(type(e), e, e.__traceback__))[-3000:])
    out["wall_s"] = round(time.time() - t0, 3)
    sys.stdout.write("\n@@RESULT@@" + json.dumps(out) + "\n")
    sys.stdout.flush()
    os._exit(0)


if __name__ == "__main__":
    main()
