"""Replay a recorded counterexample concretely (no CrossHair) against the real code in /repo."""
import importlib
import json
import os
import sys

ROOT = os.path.dirname(os.path.dirname(os.path.abspath(__file__)))
if ROOT not in sys.path:
    sys.path.insert(0, ROOT)


def main():
    rec = json.load(open(sys.argv[1]))
    from vlib.main import concrete_call
    mod = importlib.import_module(rec["harness"])
    res, _ = concrete_call(mod, rec["condition"], rec["args"])
    print("condition=%s args=%s" % (rec["condition"], rec["args"]))
    print("result on real code: %r (recorded signature: %r)" % (res, rec["signature"]))
    if res != "":
        print("VIOLATION property=%s replay=%s" % (rec["property"], sys.argv[1]))
        return 1
    print("does not reproduce on this tree")
    return 0


if __name__ == "__main__":
    sys.exit(main())
