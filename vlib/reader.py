"""Independent reader of a paused frame: what a truthful snapshot must say (oracle for C02 / C05 / C06 / C07).

Written from the property texts and the documented conventions (type name, str() text, 'Size: n' for containers,
children by kind, de-mangled private attribute names) - it never calls the agent's collection code.
Snapshot entries are tied to real objects through Variable.hash == str(id(object)).
"""
LIST_LIKE = (list, tuple, set, frozenset)
NO_CHILD = (str, int, float, bool, type, type(None))


def text_of(o):
    """Value rendered as text: element count for containers, str() otherwise. None = not fixed (iterators, failing str)."""
    t = type(o)
    if t is dict or t in LIST_LIKE:
        return "Size: %d" % len(o)
    if t.__name__ in ("list_iterator", "list_reverseiterator"):
        return None
    try:
        return str(o)
    except Exception:
        return None


def _is_plain_sequence(o):
    import collections
    return isinstance(o, (range, collections.deque))


def _name(k):
    if isinstance(k, str):
        return k
    try:
        return str(k)
    except BaseException:  # noqa
        return None


def children_of(o):
    """[(name, original_name_or_None, child_object)] in the object's own order; no caps applied."""
    try:
        return _children_of(o)
    except BaseException:  # noqa - hostile objects (attribute access raises): no children are required
        return []


def _children_of(o):
    t = type(o)
    if issubclass(t, type) and t is not type:
        # instances of a metaclass (e.g. Enum classes) may be described through their attribute dictionary
        return [(_name(k), None, v) for k, v in list(vars(o).items())]
    if issubclass(t, NO_CHILD) or t.__name__ in ("module", "traceback", "list_iterator", "list_reverseiterator"):
        return []
    if t is dict:
        return [(_name(k), None, v) for k, v in list(o.items())]
    if t in LIST_LIKE:
        return [(str(i), None, v) for i, v in enumerate(tuple(o))]
    if issubclass(t, Exception):        # the REAL type decides (an object may present another __class__)
        return [(str(i), None, v) for i, v in enumerate(o.args)]
    d = getattr(o, "__dict__", None)
    if isinstance(d, dict):
        out = []
        prefix = "_" + t.__name__
        for k, v in list(d.items()):
            if isinstance(k, str) and k.startswith(prefix):
                out.append((k[len(prefix):], k, v))
            else:
                out.append((_name(k), None, v))
        return out
    return []


def modifiers_of(name):
    if isinstance(name, str) and name.startswith("__"):
        return ["private"]
    if isinstance(name, str) and name.startswith("_"):
        return ["protected"]
    return []


def allowed_children(o, depth, max_coll, max_depth):
    """Children the caps allow for an object recorded at `depth` (frame locals are depth 1)."""
    if depth + 1 >= max_depth:
        return []
    ch = children_of(o)
    if type(o) in LIST_LIKE or isinstance(o, Exception):
        ch = ch[:max(max_coll, 0)]
    return ch


def bfs_depths(f_locals, max_coll, max_depth):
    """Minimal depth of every distinct object reachable within the caps. id -> (depth, obj); locals are depth 1."""
    out = {}
    if 0 + 1 >= max_depth:
        return out
    level = [v for v in f_locals.values()]
    d = 1
    while level:
        nxt = []
        for o in level:
            if id(o) in out:
                continue
            out[id(o)] = (d, o)
            for (_, _, c) in allowed_children(o, d, max_coll, max_depth):
                nxt.append(c)
        level = nxt
        d += 1
    return out


class Mismatch(Exception):
    pass


def walk_snapshot(snapshot, roots):
    """Yield (depth, parent_vid_or_None, ref) for every reference reachable from `roots` (list of VariableId), BFS,
    each table entry expanded once.  Raises Mismatch('dangling') on a reference with no table entry."""
    seen = set()
    level = [(None, r) for r in roots]
    d = 1
    out = []
    while level:
        nxt = []
        for (p, r) in level:
            out.append((d, p, r))
            if r.vid not in snapshot.var_lookup:
                raise Mismatch("dangling-reference")
            if r.vid in seen:
                continue
            seen.add(r.vid)
            for c in snapshot.var_lookup[r.vid].children:
                nxt.append((r.vid, c))
        level = nxt
        d += 1
    return out, seen


def check_frame_fidelity(snapshot, frame_index, f_locals, max_str, max_coll, max_depth, require_all_locals=True,
                         hostile_ids=(), complete=False):
    """Compare the variables of one frame of a snapshot with the real objects. Returns '' or a failure signature."""
    frame = snapshot.frames[frame_index]
    names = [r.name for r in frame.variables]
    if len(set(names)) != len(names):
        return "frame-variable-duplicated"
    for n in names:
        if n not in f_locals:
            return "frame-variable-not-a-local"
    if require_all_locals and sorted(names, key=str) != sorted(f_locals.keys(), key=str):
        return "frame-locals-missing"
    obj_of = {}     # vid -> real object

    def bind(ref, obj):
        if ref.vid not in snapshot.var_lookup:
            return "dangling-reference"
        v = snapshot.var_lookup[ref.vid]
        if v.hash != str(id(obj)):
            return "reference-points-at-another-object"
        if ref.vid in obj_of and obj_of[ref.vid] is not obj:
            return "one-id-two-objects"
        obj_of[ref.vid] = obj
        return ""
    work = []
    for r in frame.variables:
        e = bind(r, f_locals[r.name])
        if e:
            return e
        work.append((1, r))
    done = set()
    while work:
        depth, r = work.pop(0)
        if r.vid in done:
            continue
        done.add(r.vid)
        o = obj_of[r.vid]
        v = snapshot.var_lookup[r.vid]
        if id(o) in hostile_ids:
            continue
        if v.type != type(o).__name__:
            return "type-name-wrong"
        txt = text_of(o)
        if txt is not None and _is_plain_sequence(o) and v.value == "Size: %d" % len(o):
            txt = v.value       # sequence kinds without a rule of their own (range, deque): the container rendering is truthful too
        if txt is not None:
            if v.value != txt[:max_str]:
                return "value-text-wrong"
            if bool(v.truncated) != (len(txt) > max_str):
                return "truncated-flag-wrong"
        real = children_of(o)
        by_name = {}
        for (nm, orig, c) in real:
            by_name[nm] = (orig, c)
        cnames = [c.name for c in v.children]
        if len(set(map(str, cnames))) != len(cnames):
            return "child-duplicated"
        if complete and not issubclass(type(o), type):
            # the variable budget is not in play (caller's promise): every child the caps allow is listed
            expected = allowed_children(o, depth, max_coll, max_depth)
            if len(v.children) < len(expected):
                return "children-missing(%s)" % type(o).__name__
        if (type(o) in LIST_LIKE or isinstance(o, Exception)) and len(v.children) > max(max_coll, 0):
            return "collection-cap-exceeded"
        for c in v.children:
            if c.name not in by_name and _is_plain_sequence(o) and str(c.name).isdigit() and int(c.name) < len(o):
                # listing the elements of such a sequence is truthful when each entry shows THAT element - compared by
                # value: the elements are produced on demand, there is no lasting identity
                if c.vid not in snapshot.var_lookup:
                    return "dangling-reference"
                cv, el = snapshot.var_lookup[c.vid], o[int(c.name)]
                if cv.type != type(el).__name__ or (text_of(el) is not None and cv.value != text_of(el)[:max_str]):
                    return "child-entry-shows-another-element"
                continue
            if c.name not in by_name:
                return "child-name-not-in-object"
            orig, co = by_name[c.name]
            e = bind(c, co)
            if e:
                return e
            if orig is not None and c.original_name != orig:
                return "original-name-wrong"
            if list(c.modifiers) != modifiers_of(c.name):
                return "modifiers-wrong"
            work.append((depth + 1, c))
    return ""
