"""Shared harness machinery: the world the real agent code runs in (DESIGN §3, §4.1, §4.2).

Everything here is a stand-in for the *environment* of the agent (frames, clock, plugins, push service); the agent
code itself (deep.*) is always the real code imported from /repo's working tree.
"""
import logging as _pylogging
import sys

REACH = {"flag": False}
COUNT = {"paths": 0, "reached": 0, "cf_swallowed": 0}
FUNCS = set()
_CF = []
_GUARDS = {"installed": False}


# ----------------------------------------------------------------------------------------------------------------
# engine guards
# ----------------------------------------------------------------------------------------------------------------
def install_engine_guards():
    """Instrument CrossHair's path-steering exceptions so the agent's `except BaseException` cannot eat them."""
    if _GUARDS["installed"]:
        return
    _GUARDS["installed"] = True
    try:
        from crosshair.util import ControlFlowException
        orig_init = ControlFlowException.__init__

        def __init__(self, *a, **k):
            _CF.append(self)
            orig_init(self, *a, **k)
        ControlFlowException.__init__ = __init__
    except ImportError:
        pass
    _concrete_dict_copies()
    quiet_logging()
    snapshot_agent_state()


def _concrete_dict_copies():
    """dict(<real dict with real keys>) stays a real dict under the engine.

    CrossHair intercepts every call of `dict` and returns its own dict model (ShellMutableMap over a linear SimpleDict),
    even when the argument is an ordinary concrete dict - unlike `d.copy()` or `{**d}`, which stay real. The model is
    only needed for symbolic containers / keys; on concrete ones it multiplies paths (observed: 25 -> >180, never
    exhausted) for a copy that has one possible result. Symbolic arguments still go to the engine's model.
    """
    try:
        import crosshair.core_and_libs  # noqa: F401  (registers the library patches)
        from crosshair.core import _PATCH_REGISTRATIONS
        from crosshair.tracers import NoTracing
    except ImportError:
        return
    engine_dict = _PATCH_REGISTRATIONS.get(dict)
    if engine_dict is None:
        return
    _missing = object()

    def _dict(arg=_missing, **kwargs):
        if arg is not _missing and not kwargs:
            with NoTracing():
                plain = type(arg) is dict and all(type(k) in (str, int, bool, bytes, float, type(None)) for k in arg)
                if plain:
                    return dict.copy(arg)
        if arg is _missing:
            return engine_dict(**kwargs)
        return engine_dict(arg, **kwargs)
    _PATCH_REGISTRATIONS[dict] = _dict


def quiet_logging():
    """Logging gets an empty body (it is not the subject of any property; see DESIGN §4.4)."""
    _pylogging.disable(_pylogging.CRITICAL)
    import deep.logging as dl

    def _noop(*a, **k):
        return None
    for n in ("warning", "info", "debug", "error", "exception"):
        setattr(dl, n, _noop)


_PRISTINE = {}


def _agent_level_containers():
    """(key, container) for every mutable container held at module or class level in deep.* (state that outlives a path)."""
    import collections
    for name, mod in list(sys.modules.items()):
        if not (name == "deep" or name.startswith("deep.")) or mod is None:
            continue
        for attr, val in list(vars(mod).items()):
            if attr.startswith("__"):
                continue
            if isinstance(val, (list, dict, set, collections.deque)):
                yield "%s.%s" % (name, attr), val
            elif isinstance(val, type) and getattr(val, "__module__", "") == name:
                for a2, v2 in list(vars(val).items()):
                    if isinstance(v2, (list, dict, set, collections.deque)):
                        yield "%s.%s.%s" % (name, attr, a2), v2


def snapshot_agent_state():
    """Import every deep.* module and remember the import-time content of its module- and class-level containers."""
    import importlib
    import pkgutil
    import deep
    for m in pkgutil.walk_packages(deep.__path__, "deep."):
        try:
            importlib.import_module(m.name)
        except BaseException:  # noqa  (optional integrations whose dependency is not installed)
            pass
    for key, cont in _agent_level_containers():
        _PRISTINE[key] = type(cont)(cont)


def _restore_agent_state():
    """Every path starts from the import-time agent: whatever a path left in class-/module-level containers (caches, stores)
    is removed, so paths stay independent (the engine requires determinism) and leaked state shows WITHIN a path only."""
    for key, cont in _agent_level_containers():
        init = _PRISTINE.get(key)
        if init is None or len(cont) == len(init) and cont == init:
            continue
        cont.clear()
        if isinstance(cont, dict):
            cont.update(init)
        elif isinstance(cont, set):
            cont.update(init)
        else:
            cont.extend(init)


def begin_path():
    """Call at the start of every harness execution: reset per-path state."""
    COUNT["paths"] += 1
    REACH["flag"] = False
    GLOBAL_RANDOM["draws"] = 0
    del _CF[:]
    if _PRISTINE:
        try:
            from crosshair.tracers import NoTracing
        except ImportError:
            _restore_agent_state()
        else:
            with NoTracing():
                _restore_agent_state()
    from deep.thread_local import ThreadLocal
    ThreadLocal._ThreadLocal__store.clear()


def reached():
    """Mark that the asserted code was reached on this path (reachability twin + distinct_nontrivial count)."""
    if not REACH["flag"]:
        COUNT["reached"] += 1
    REACH["flag"] = True


def cf_check():
    """Re-raise an engine control-flow exception that was constructed during agent code and swallowed by it."""
    if _CF:
        e = _CF[-1]
        del _CF[:]
        COUNT["cf_swallowed"] += 1
        raise e


def agent(fn, *a, **k):
    """Call into agent code; afterwards make sure no engine exception was swallowed inside it."""
    del _CF[:]
    try:
        r = fn(*a, **k)
    except BaseException as e:  # noqa
        if _is_cf(e):
            raise
        del _CF[:]
        raise
    cf_check()
    return r


def _is_cf(e):
    try:
        from crosshair.util import ControlFlowException
        return isinstance(e, ControlFlowException)
    except ImportError:
        return False


def is_engine_exc(e):
    return _is_cf(e)


_CHAIN = list(range(0, 17)) + list(range(-1, -9, -1)) + list(range(17, 65))


def realize(x):
    """Concretise a selector.

    Under the engine a symbolic int/bool is decoded with an if-chain (`x == v`), which yields exactly one path per
    feasible value; crosshair.realize (model value + fork on `x != v`) was measured to multiply the number of paths
    by ~1.5 per realised variable. Anything else falls back to crosshair.realize. Identity outside the engine.
    """
    try:
        from crosshair import NoTracing, realize as ch_realize
        from crosshair.libimpl.builtinslib import SymbolicInt, SymbolicBool
        from crosshair.tracers import is_tracing
    except ImportError:
        return x
    if not is_tracing():
        return x
    with NoTracing():
        is_bool = isinstance(x, SymbolicBool)
        is_int = isinstance(x, SymbolicInt)
    if is_bool:
        return True if x else False
    if is_int:
        for v in _CHAIN:
            if x == v:
                return v
    return ch_realize(x)


def deep_realize(x):
    try:
        from crosshair import deep_realize as r
        return r(x)
    except ImportError:
        return x


# ----------------------------------------------------------------------------------------------------------------
# frames
# ----------------------------------------------------------------------------------------------------------------
class FakeCode:
    def __init__(self, filename, name, qualname=None):
        self.co_filename = filename
        self.co_name = name
        self.co_qualname = qualname if qualname is not None else name      # python 3.11+: 'Cls.meth', 'outer.<locals>.inner'


class FakeFrame:
    """Projection of types.FrameType the agent reads: f_code.co_filename/co_name, f_lineno, f_locals, f_globals, f_back."""

    def __init__(self, filename, name, lineno, f_locals=None, f_globals=None, f_back=None, qualname=None):
        self.f_code = FakeCode(filename, name, qualname)
        self.f_lineno = lineno
        self.f_locals = {} if f_locals is None else f_locals
        self.f_globals = {} if f_globals is None else f_globals
        self.f_back = f_back
        self.f_trace = None


# ----------------------------------------------------------------------------------------------------------------
# clock / ids
# ----------------------------------------------------------------------------------------------------------------
class Clock:
    """Stub for time_ns: returns the scripted instants in order, then keeps returning the last one."""

    def __init__(self, instants):
        self.instants = list(instants)
        self.i = 0
        self.calls = 0

    def set(self, t):
        self.instants = [t]
        self.i = 0

    def __call__(self):
        self.calls += 1
        if self.i < len(self.instants) - 1:
            v = self.instants[self.i]
            self.i += 1
            return v
        return self.instants[-1]


class FixedClock:
    """Stub for time_ns that returns the same instant until told otherwise (one instant per trace event)."""

    def __init__(self, t=1):
        self.t = t

    def __call__(self):
        return self.t


class _Counter:
    def __init__(self):
        self.n = 0

    def next(self):
        self.n += 1
        return self.n


class FakeUuidMod:
    """Stand-in for the `uuid` module inside agent modules: deterministic ids ctx-1, ctx-2, ..."""

    def __init__(self, prefix="ctx"):
        self.c = _Counter()
        self.prefix = prefix

    def uuid4(self):
        return "%s-%d" % (self.prefix, self.c.next())


GLOBAL_RANDOM = {"draws": 0}


class _PrivateRandom:
    """A generator of the agent's own (random.Random() / random.SystemRandom()): drawing from it concerns nobody else."""
    _c = None

    def __init__(self, *a, **k):
        pass

    def getrandbits(self, n):
        return _PrivateRandom._c.next()

    def random(self):
        return 0.5

    def randint(self, a, b):
        return a


class FakeRandomMod:
    """Stand-in for the `random` MODULE as seen from an agent module. Its module-level functions draw from the process-wide
    generator that the application may have seeded: every such draw by the agent advances the application's random
    sequence (a host-transparency matter, C01) and is counted in GLOBAL_RANDOM."""
    Random = _PrivateRandom
    SystemRandom = _PrivateRandom

    def __init__(self):
        self.c = _Counter()
        _PrivateRandom._c = self.c

    def _global(self):
        GLOBAL_RANDOM["draws"] += 1

    def getrandbits(self, n):
        self._global()
        return self.c.next()

    def random(self):
        self._global()
        return 0.5

    def randint(self, a, b):
        self._global()
        return a

    def choice(self, seq):
        self._global()
        return seq[0]


def install_determinism(clock):
    """Rebind time_ns / uuid / random in the agent modules (DESIGN §3.4)."""
    import deep.processor.context.trigger_context as tc
    import deep.processor.frame_collector as fc
    import deep.api.tracepoint.eventsnapshot as es
    import deep.config.tracepoint_config as tpc
    tc.time_ns = clock
    fc.time_ns = clock
    es.time_ns = clock
    tc.uuid = FakeUuidMod("ctx")
    tpc.uuid = FakeUuidMod("tp")
    fake_random = FakeRandomMod()
    es.random = fake_random
    import random as real_random
    for name, mod in list(sys.modules.items()):
        if (name == "deep" or name.startswith("deep.")) and mod is not None:
            if getattr(mod, "random", None) is real_random:
                mod.random = fake_random
            for attr, val in list(vars(mod).items()):
                # a generator of the agent's own, created at import: made deterministic, and not counted as a global draw
                if isinstance(val, real_random.Random):
                    setattr(mod, attr, _PrivateRandom())
    return clock


# ----------------------------------------------------------------------------------------------------------------
# push + plugins
# ----------------------------------------------------------------------------------------------------------------
class RecPush:
    """Recording stand-in for PushService: keeps every snapshot handed to push_snapshot."""

    def __init__(self):
        self.snapshots = []
        self.fail = None

    def push_snapshot(self, snapshot):
        if self.fail is not None:
            raise self.fail
        self.snapshots.append(snapshot)


def make_plugin_classes():
    from deep.api.plugin import TracepointLogger, SnapshotDecorator, ResourceProvider
    from deep.api.plugin.metric import MetricProcessor
    from deep.api.plugin.span import SpanProcessor

    class RecSpan:
        def __init__(self, owner, name, ctx_id, tp_id):
            self.owner, self.name_, self.ctx_id, self.tp_id = owner, name, ctx_id, tp_id
            self.closed = 0

        def close(self):
            self.owner.log.append(("close", self.name_, self.ctx_id, self.tp_id))
            self.closed += 1
            if self.owner.fail_close:
                raise self.owner.fail_close

    class RecSpanProcessor(SpanProcessor):
        def __init__(self, log=None):
            super().__init__(config=None)
            self.log = [] if log is None else log
            self.spans = []
            self.fail_create = None
            self.fail_close = None

        def create_span(self, name, context_id, tracepoint_id):
            self.log.append(("open", name, context_id, tracepoint_id))
            if self.fail_create:
                raise self.fail_create
            s = RecSpan(self, name, context_id, tracepoint_id)
            self.spans.append(s)
            return s

        def current_span(self):
            return None

    class RecMetricProcessor(MetricProcessor):
        def __init__(self, log=None):
            super().__init__(config=None)
            self.log = [] if log is None else log
            self.fail = None

        def _rec(self, kind, name, labels, namespace, help_string, unit, value):
            self.log.append((kind, name, dict(labels), namespace, help_string, unit, value))
            if self.fail:
                raise self.fail

        def counter(self, *a):
            self._rec("counter", *a)

        def gauge(self, *a):
            self._rec("gauge", *a)

        def histogram(self, *a):
            self._rec("histogram", *a)

        def summary(self, *a):
            self._rec("summary", *a)

    class RecLogger(TracepointLogger):
        def __init__(self, log=None):
            super().__init__(config=None)
            self.log = [] if log is None else log
            self.fail = None

        def log_tracepoint(self, log_msg, tp_id, ctx_id):
            self.log.append(("log", log_msg, tp_id, ctx_id))
            if self.fail:
                raise self.fail

    class RecDecorator(SnapshotDecorator):
        def __init__(self, attrs=None):
            super().__init__(config=None)
            self.attrs = attrs or {}
            self.calls = 0
            self.fail = None
            self.garbage = None

        def decorate(self, snapshot_id, context):
            self.calls += 1
            if self.fail:
                raise self.fail
            if self.garbage is not None:
                return self.garbage
            from deep.api.attributes import BoundedAttributes
            return BoundedAttributes(attributes=self.attrs)

    class RecResource(ResourceProvider):
        def __init__(self, attrs=None):
            super().__init__(config=None)
            self.attrs = attrs or {}
            self.fail = None
            self.garbage = None

        def resource(self):
            if self.fail:
                raise self.fail
            if self.garbage is not None:
                return self.garbage         # a provider that answers with something that is not a Resource
            from deep.api.resource import Resource
            return Resource(self.attrs)

    return dict(RecSpanProcessor=RecSpanProcessor, RecMetricProcessor=RecMetricProcessor, RecLogger=RecLogger,
                RecDecorator=RecDecorator, RecResource=RecResource, RecSpan=RecSpan)


_PL = {}


def plugins():
    if not _PL:
        _PL.update(make_plugin_classes())
    return _PL


class World:
    """One agent instance: real ConfigService + TracepointConfigService + TriggerHandler, recording push/plugins."""

    def __init__(self, custom=None, plugin_list=None, clock=None, push=None):
        from deep.config import ConfigService
        from deep.config.tracepoint_config import TracepointConfigService
        from deep.processor.trigger_handler import TriggerHandler
        from deep.api.resource import Resource
        self.clock = clock if clock is not None else FixedClock(1)
        install_determinism(self.clock)
        cfg = {"APP_ROOT": "/app", "IN_APP_INCLUDE": [], "IN_APP_EXCLUDE": []}
        if custom:
            cfg.update(custom)
        self.tps = TracepointConfigService()
        self.config = ConfigService(cfg, tracepoints=self.tps)
        self.config.resource = Resource({"service.name": "svc"})
        self.config.plugins = list(plugin_list or [])
        self.push = push if push is not None else RecPush()
        self.handler = TriggerHandler(self.config, self.push)

    def install(self, triggers):
        self.handler.new_config(list(triggers))

    def event(self, frame, event, arg=None):
        return agent(self.handler.trace_call, frame, event, arg)


# ----------------------------------------------------------------------------------------------------------------
# profile: which real deep.* functions a concrete replay entered (evidence.functions_encoded)
# ----------------------------------------------------------------------------------------------------------------
def profile_deep_functions(fn, *a, **k):
    seen = set()

    def prof(frame, event, arg):
        if event == "call":
            f = frame.f_code.co_filename
            if "/deep/" in f and "/site-packages/" not in f:
                mod = f.split("/deep/", 1)[1][:-3].replace("/", ".")
                seen.add("deep.%s:%s" % (mod, frame.f_code.co_qualname if hasattr(frame.f_code, "co_qualname")
                                         else frame.f_code.co_name))
    old = sys.getprofile()
    sys.setprofile(prof)
    try:
        r = fn(*a, **k)
    finally:
        sys.setprofile(old)
    return r, seen
