"""vcheck orchestrator: run every condition of a property's harness under CrossHair (cube-split, 16 procs),
replay candidate counterexamples concretely against the real code, apply known findings, write evidence.

exit 0: property held on everything explored (KNOWN-FINDING lines possible)
exit 1: VIOLATION property=<id> replay=<path>   (only for a counterexample that reproduces concretely)
exit 2: harness / engine error (vacuous twin, engine divergence, import failure) - never on the unchanged tree
"""
import argparse
import ast
import concurrent.futures as cf
import hashlib
import importlib
import json
import os
import random
import subprocess
import sys
import time

ROOT = os.path.dirname(os.path.dirname(os.path.abspath(__file__)))
if ROOT not in sys.path:
    sys.path.insert(0, ROOT)

HARNESS = {
    "C01": "harness.c01_transparency", "C02": "harness.c02_fidelity", "C03": "harness.c03_placement",
    "C04": "harness.c04_rate", "C05": "harness.c05_bounds", "C06": "harness.c06_total",
    "C07": "harness.c07_table", "C08": "harness.c08_wire", "C09": "harness.c09_delivery",
    "C10": "harness.c10_expr", "C11": "harness.c11_config", "C12": "harness.c12_converge",
    "C13": "harness.c13_register", "C14": "harness.c14_lifecycle", "C15": "harness.c15_deferred",
    "C16": "harness.c16_log", "C17": "harness.c17_metric", "C18": "harness.c18_resource",
    "C19": "harness.c19_config", "C20": "harness.c20_plugins",
}
TIER_TIMEOUT = {"quick": 300, "thorough": 600}
PY = os.path.join(ROOT, ".venv", "bin", "python")


def run_cube(modname, fn, pre, mode, timeout, seed):
    spec = {"pre": [p for p in pre if p], "mode": mode, "timeout": timeout, "seed": seed}
    t0 = time.time()
    try:
        p = subprocess.run([PY, "-m", "vlib.cube_runner", modname, fn, json.dumps(spec)], cwd=ROOT,
                           capture_output=True, text=True, timeout=timeout * 1.5 + 60)
        out = p.stdout
        if "@@RESULT@@" in out:
            r = json.loads(out.split("@@RESULT@@", 1)[1].strip().splitlines()[0])
        else:
            r = {"verdict": "HARNESS_ERROR", "message": (p.stderr or out)[-2000:]}
    except subprocess.TimeoutExpired:
        r = {"verdict": "CANNOT_CONFIRM", "message": "outer timeout", "paths": 0, "queries": 0, "solver_s": 0}
    r.update(cond=fn, pre=spec["pre"], mode=mode, wall_s=round(time.time() - t0, 2))
    return r


def parse_counterexample(message, fname):
    """'false when calling f(a=1, b="x")' -> {'a': 1, 'b': 'x'}."""
    i = message.find(fname + "(")
    if i < 0:
        return None
    src = message[i:]
    # cut at the matching close paren
    depth, end = 0, None
    instr, esc = None, False
    for j, ch in enumerate(src):
        if instr:
            if esc:
                esc = False
            elif ch == "\\":
                esc = True
            elif ch == instr:
                instr = None
            continue
        if ch in "\"'":
            instr = ch
        elif ch == "(":
            depth += 1
        elif ch == ")":
            depth -= 1
            if depth == 0:
                end = j
                break
    if end is None:
        return None
    try:
        call = ast.parse(src[:end + 1], mode="eval").body
        args = {}
        for kw in call.keywords:
            args[kw.arg] = ast.literal_eval(kw.value)
        if call.args:
            return {"__pos__": [ast.literal_eval(a) for a in call.args], **args}
        return args
    except Exception:
        return None


def name_args(mod, fname, args):
    """Map positional counterexample values onto the condition's parameter names."""
    if args is None:
        return None
    import inspect
    params = list(inspect.signature(getattr(mod, fname)).parameters)
    a = dict(args)
    pos = a.pop("__pos__", [])
    for n, v in zip(params, pos):
        a[n] = v
    return a


def concrete_call(mod, fname, args, profile=False):
    """Run the harness function concretely (no CrossHair) against the real code."""
    from vlib import world
    world.quiet_logging()
    fn = getattr(mod, fname)
    import inspect
    params = list(inspect.signature(fn).parameters)
    a = dict(args)
    pos = a.pop("__pos__", [])
    for n, v in zip(params, pos):
        a[n] = v
    if profile:
        return world.profile_deep_functions(fn, **a)
    return fn(**a), set()


def pre_holds(mod, fname, args, extra_pre):
    """Evaluate the docstring preconditions (+ cube) concretely on args."""
    fn = getattr(mod, fname)
    pres = [ln.strip()[4:].strip() for ln in (fn.__doc__ or "").splitlines() if ln.strip().startswith("PRE:")]
    pres += [p for p in extra_pre if p]
    env = dict(fn.__globals__)
    env.update(args)
    try:
        return all(eval(p, env) for p in pres)
    except Exception:
        return False


def load_known(prop):
    path = os.path.join(ROOT, "known_findings.json")
    if not os.path.exists(path):
        return []
    return [e for e in json.load(open(path))["findings"] if e["property"] == prop]


def main(argv=None):
    ap = argparse.ArgumentParser()
    ap.add_argument("prop")
    ap.add_argument("--tier", default=os.environ.get("VERIF_TIER", "quick"))
    ap.add_argument("--only", default=None, help="comma list of condition names")
    ap.add_argument("--jobs", type=int, default=int(os.environ.get("VERIF_JOBS", "16")))
    ap.add_argument("--no-twins", action="store_true")
    a = ap.parse_args(argv)
    if a.prop == "replay":
        return 2
    prop, tier = a.prop, a.tier if a.tier in ("quick", "thorough") else "quick"
    seed = int(os.environ.get("VERIF_SEED", "0") or 0)
    t0 = time.time()
    ev_path = os.path.join(ROOT, "evidence", prop + ".json")
    os.makedirs(os.path.dirname(ev_path), exist_ok=True)
    work = os.path.join(ROOT, ".work", prop)
    os.makedirs(work, exist_ok=True)
    cubes_dir = os.path.join(ROOT, ".work", "cubes")
    if os.path.isdir(cubes_dir):      # generated wrapper modules of earlier runs (kept only while their process runs)
        now = time.time()
        for fn_ in os.listdir(cubes_dir):
            fp = os.path.join(cubes_dir, fn_)
            try:
                if now - os.path.getmtime(fp) > 3600:
                    os.unlink(fp)
            except OSError:
                pass

    try:
        mod = importlib.import_module(HARNESS[prop])
        from vlib import world
        world.quiet_logging()
    except BaseException as e:  # a mutated tree that no longer imports: harness error, not a verdict
        import traceback
        traceback.print_exc()
        print("HARNESS-ERROR property=%s cannot import harness / repo: %r" % (prop, e))
        return 2

    known = load_known(prop)
    conds = [c for c in mod.CONDITIONS if not a.only or c["fn"] in a.only.split(",")]
    timeout = TIER_TIMEOUT[tier]
    out_lines = []
    violations = []
    harness_errors = []
    known_lines = []
    replays_run = 0

    # ---- known findings: replay witnesses, collect excludes --------------------------------------------------
    excludes = {}
    for e in known:
        if e.get("status") != "known":
            continue
        excludes.setdefault(e["condition"], []).append("not (%s)" % e["exclude"])
        try:
            res, _ = concrete_call(mod, e["condition"], e["witness_args"])
            replays_run += 1
        except BaseException as ex:  # noqa
            res = "EXC:" + type(ex).__name__
        if res == e["signature"]:
            ln = "KNOWN-FINDING: property=%s %s" % (prop, e["what"])
            if ln not in known_lines:
                known_lines.append(ln)
        elif res == "":
            out_lines.append("note: known finding %s no longer reproduces on this tree" % e["key"])
        else:
            # the witness now fails differently: that is a different violation
            violations.append(dict(cond=e["condition"], args=e["witness_args"], signature=res,
                                   note="known-finding witness fails with a different signature"))

    # ---- job list ---------------------------------------------------------------------------------------------
    jobs = []
    for c in conds:
        if "not (True)" in excludes.get(c["fn"], []):
            continue        # a known finding covers this whole condition: only its witness is replayed (above)
        cubes = c["cubes"][tier] if isinstance(c["cubes"], dict) else c["cubes"]
        tmo = c.get("timeout", {}).get(tier, timeout) if isinstance(c.get("timeout"), dict) else timeout
        for cube in cubes:
            pre = [cube] + excludes.get(c["fn"], [])
            jobs.append((c["fn"], pre, "check", tmo))
        if not a.no_twins:
            for tw in c.get("twins", []):
                # twins run on the first cube only and without known-finding excludes
                tw_pre = [c.get("twin_cube", cubes[0])]
                if "@" in tw:
                    tw, cube_override = tw.split("@", 1)
                    tw_pre = [cube_override]
                jobs.append((c["fn"], tw_pre, tw, min(tmo, 240)))
    rnd = random.Random(seed)
    rnd.shuffle(jobs)
    # run longest-looking jobs first is unknowable; just go
    results = []
    with cf.ThreadPoolExecutor(max_workers=a.jobs) as ex:
        futs = [ex.submit(run_cube, HARNESS[prop], fn, pre, mode, tmo, seed) for (fn, pre, mode, tmo) in jobs]
        for f in cf.as_completed(futs):
            results.append(f.result())

    # ---- interpret ---------------------------------------------------------------------------------------------
    samples = []
    cubes_ev = []
    funcs = set()
    exhaustive = True
    for r in sorted(results, key=lambda r: (r["cond"], r["mode"], str(r["pre"]))):
        mode = r["mode"]
        verdict = r.get("verdict")
        entry = {k: r.get(k) for k in ("cond", "pre", "mode", "verdict", "paths", "reached", "queries", "solver_s",
                                       "unknown", "wall_s")}
        cubes_ev.append(entry)
        ce_args = None
        if verdict == "COUNTEREXAMPLE":
            for m in r.get("messages", []):
                if m["state"] in ("POST_FAIL", "EXEC_ERR", "POST_ERR"):
                    ce_args = name_args(mod, r["cond"], parse_counterexample(m["message"], r["cond"]))
                    entry["message"] = m["message"][:400]
                    break
        if mode == "reach" or mode.startswith("mutant:"):
            # twins must be refuted, and the refutation must reproduce concretely (reach) / be a real failure (mutant)
            if verdict == "CANNOT_CONFIRM":
                # the twin's budget ran out before it was refuted (a loaded or slower machine): the check's own verdict does
                # not depend on it; say so instead of failing the run. A twin that is CONFIRMED (never refutable) is an error.
                out_lines.append("note: twin %s of %s inconclusive within its time budget on this run" % (mode, r["cond"]))
                entry["twin_ok"] = None
            elif verdict != "COUNTEREXAMPLE":
                harness_errors.append("twin %s of %s was not refuted (%s): the condition is vacuous or insensitive"
                                      % (mode, r["cond"], verdict))
                entry["twin_ok"] = False
            else:
                entry["twin_ok"] = True
                if mode == "reach" and ce_args is not None:
                    try:
                        res, fs = concrete_call(mod, r["cond"], ce_args, profile=True)
                        replays_run += 1
                        funcs |= fs
                        samples.append({"cond": r["cond"], "witness_args": ce_args, "result_on_real_code": res})
                    except BaseException as ex:  # noqa
                        samples.append({"cond": r["cond"], "witness_args": ce_args, "replay_exception": repr(ex)})
            continue
        # ---- real check cubes
        if verdict == "CONFIRMED":
            pass
        elif verdict == "CANNOT_CONFIRM":
            exhaustive = False
        elif verdict == "COUNTEREXAMPLE":
            if ce_args is None:
                harness_errors.append("unparsable counterexample for %s: %s" % (r["cond"], entry.get("message")))
                continue
            try:
                res, _ = concrete_call(mod, r["cond"], ce_args)
                replays_run += 1
            except BaseException as ex:  # noqa
                res = "EXC:%s:%s" % (type(ex).__name__, ex)
            entry["replay_result"] = res
            if res == "":
                harness_errors.append("engine-divergent counterexample for %s %s (does not reproduce concretely)"
                                      % (r["cond"], ce_args))
            elif not pre_holds(mod, r["cond"], ce_args, r["pre"]):
                harness_errors.append("counterexample for %s violates its own precondition: %s" % (r["cond"], ce_args))
            else:
                violations.append(dict(cond=r["cond"], args=ce_args, signature=res, message=entry.get("message")))
        elif verdict == "PRE_UNSAT":
            if any(p.startswith("not (") for p in r["pre"][1:]):
                entry["note"] = "cube lies entirely inside a known-finding region (only the witness is replayed)"
            else:
                harness_errors.append("vacuous cube %s %s" % (r["cond"], r["pre"]))
        else:
            harness_errors.append("harness error in %s %s: %s" % (r["cond"], r["pre"], (r.get("message") or "")[-600:]))

    check_cubes = [c for c in cubes_ev if c["mode"] == "check"]
    n_paths = sum(c.get("paths") or 0 for c in cubes_ev)
    n_queries = sum(c.get("queries") or 0 for c in cubes_ev)
    n_reached = sum(c.get("reached") or 0 for c in check_cubes)
    solver_s = round(sum(c.get("solver_s") or 0 for c in cubes_ev), 2)
    confirmed = sum(1 for c in check_cubes if c["verdict"] == "CONFIRMED" or c.get("note"))

    # ---- violations -> replay files ---------------------------------------------------------------------------
    rc = 0
    seen_sig = set()
    for v in violations:
        key = (v["cond"], v["signature"])
        if key in seen_sig:
            continue
        seen_sig.add(key)
        h = hashlib.sha1(json.dumps([v["cond"], v["args"]], sort_keys=True, default=str).encode()).hexdigest()[:10]
        rp = os.path.join(ROOT, "replays", "%s-%s.json" % (prop, h))
        os.makedirs(os.path.dirname(rp), exist_ok=True)
        json.dump({"property": prop, "harness": HARNESS[prop], "condition": v["cond"], "args": v["args"],
                   "signature": v["signature"], "message": v.get("message"), "note": v.get("note")},
                  open(rp, "w"), indent=1, default=str)
        print("VIOLATION property=%s replay=%s" % (prop, rp))
        print("  condition=%s signature=%s args=%s" % (v["cond"], v["signature"], v["args"]))
        rc = 1
    for ln in known_lines:
        print(ln)
    for ln in out_lines:
        print(ln)
    if harness_errors and rc == 0:
        for h in harness_errors:
            print("HARNESS-ERROR property=%s %s" % (prop, h))
        rc = 2

    if not samples:
        samples = [{"cond": c["fn"], "note": "no twin witness (twins disabled)"} for c in conds]
    evidence = {
        "property_id": prop, "tier": tier, "seed": seed, "level": "model_checking",
        "coverage": {
            "states": max(n_paths, 1), "transitions": max(n_queries, 1),
            "traces_validated_against_impl": replays_run,
            "evaluations": n_paths, "distinct_nontrivial": n_reached,
            "rule": "one evaluation = one feasible path of the real code explored by CrossHair/z3 inside a cube; "
                    "non-trivial = the path executed the asserted agent code (reach flag set by the harness after the "
                    "real call returned); paths are distinct by construction (each is a different branch decision vector)",
            "samples": samples[:12],
            "exhaustive": bool(exhaustive and not harness_errors and confirmed == len(check_cubes)),
            "cubes_confirmed": confirmed, "cubes_total": len(check_cubes),
            "queries_discharged": n_queries, "solver_time_s": solver_s,
            "functions_encoded_declared": getattr(mod, "FUNCTIONS", []),
            "functions_entered_on_witness_replay": sorted(funcs)[:200],
            "bounds": {c["fn"]: c.get("bounds", "") for c in conds},
            "stubs": getattr(mod, "STUBS", []),
            "outside_claim": getattr(mod, "OUTSIDE", []),
            "cubes": cubes_ev,
            "known_findings_reported": known_lines,
            "harness_errors": harness_errors,
        },
        "assumptions": getattr(mod, "STUBS", []) + ["CrossHair 0.0.110 models of Python builtins agree with CPython "
                                                   "(every counterexample is re-run concretely before it is reported)",
                                                   "bounds as listed in coverage.bounds; anything beyond them is outside the claim"],
        "wall_s": round(time.time() - t0, 2),
        "violations": len(seen_sig),
    }
    json.dump(evidence, open(ev_path, "w"), indent=1, default=str)
    print("%s tier=%s cubes=%d confirmed=%d paths=%d queries=%d solver_s=%.1f wall_s=%.1f exhaustive=%s rc=%d"
          % (prop, tier, len(check_cubes), confirmed, n_paths, n_queries, solver_s, time.time() - t0,
             evidence["coverage"]["exhaustive"], rc))
    return rc


if __name__ == "__main__":
    sys.exit(main())
