"""Object-graph templates bound to a frame's locals (shape chosen by selectors, values concrete - DESIGN §3.2)."""


class Inner:
    def __init__(self, n):
        self.val = n
        self._prot = "p"


class Obj:
    def __init__(self, n):
        self.pub = n
        self._prot = [n]
        self.__priv = "secret"
        self.inner = Inner(n) if n > 0 else None
        self.items = ["i%d" % i for i in range(n)]


class Impostor:
    """An object that presents another class through __class__ (mocks with a spec, transparent proxies do this)."""

    def __init__(self, n):
        self.n = n

    @property
    def __class__(self):
        return float


N_TEMPLATES = 11

import collections as _collections
import time as _time

Point = _collections.namedtuple("Point", "x y")
One = _collections.namedtuple("One", "only")


def template(t, n):
    """Return the locals dict (insertion order = declaration order) for template t with size parameter n."""
    if t == 0:
        return {"a": 1, "s": "x" * n, "b": True}
    if t == 1:
        v = 7
        for _ in range(n):
            v = [v]
        return {"deep": v, "z": 1}
    if t == 2:
        return {"w": list(range(n)), "t": tuple(range(n + 1)), "st": set(range(n)), "z": 0}
    if t == 3:
        return {"d": {"k%d" % i: {"v": i} for i in range(n)}, "z": 1}
    if t == 4:
        return {"o": Obj(n), "z": 1}
    if t == 5:
        x = [1, 2]
        return {"a": [x, x], "b": x, "c": (x,)}
    if t == 6:
        a = []
        a.append(a)
        d = {}
        d["me"] = d
        d["a"] = a
        return {"a": a, "d": d}
    if t == 7:
        return {"big": [[i, i + 100, i + 200] for i in range(n)], "x": 1, "y": "yy"}
    if t == 8:
        return {"m": [{"k": ["s" * n, n]}, ("t",)], "e": ValueError("bad", n)}
    if t == 9:
        return {"imp": Impostor(n), "big": 1 << 20000, "z": 1}
    if t == 10:
        # subclasses of tuple / structseq (namedtuple, time.struct_time), a dict whose keys cannot be ordered against one
        # another, a range with elements that are not cached small ints
        return {"pt": Point(1, n), "one": One(5), "when": _time.gmtime(86400 * (n + 1)), "mixed": {1: "a", "two": 2, None: 3, (1, "a"): 4},
                "rng": range(1000, 1003 + n), "z": 1}
    raise ValueError(t)


PERMS3 = [(0, 1, 2), (0, 2, 1), (1, 0, 2), (1, 2, 0), (2, 0, 1), (2, 1, 0)]


def reorder(d, p):
    """Permute the declaration order of the locals (p indexes a permutation; wraps for != 3 names)."""
    keys = list(d.keys())
    if len(keys) < 2:
        return d
    if len(keys) == 2:
        order = keys if p % 2 == 0 else keys[::-1]
    else:
        perm = PERMS3[p % 6]
        order = [keys[i] for i in perm] + keys[3:]
    return {k: d[k] for k in order}


def all_objects(f_locals):
    """id -> object for everything reachable (no caps), cycle safe."""
    from vlib.reader import children_of
    seen = {}
    work = list(f_locals.values())
    while work:
        o = work.pop()
        if id(o) in seen:
            continue
        seen[id(o)] = o
        for (_, _, c) in children_of(o):
            work.append(c)
    return seen
