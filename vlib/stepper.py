"""Statement-level stepping of REAL functions + a context-bounded scheduler (DESIGN §4.3).

stepify() parses the current source of a function, inserts a `yield` before every statement (splitting `x += e` into
load / yield / store), turns calls to other stepped callables and to blocking stub methods into `yield from`, and
compiles the result as a generator function in the defining module's namespace.  Sched runs such generators as threads
under a schedule given by (symbolic) pre-emption points.
"""
import ast
import inspect
import textwrap


def gen_call(fn, *a, **k):
    """Call fn; if it produced a generator (a stepped callable / a blocking stub) run it as part of this thread."""
    r = fn(*a, **k)
    if inspect.isgenerator(r):
        r = yield from r
    return r


class _Stepper(ast.NodeTransformer):
    def __init__(self, wrap_names, local_gens):
        self.wrap_names = set(wrap_names)
        self.local_gens = set(local_gens)
        self.tmp = 0

    def _yield(self, node):
        y = ast.Expr(value=ast.Yield(value=ast.Constant(value=getattr(node, "lineno", 0))))
        return ast.copy_location(y, node)

    def _body(self, stmts):
        out = []
        for st in stmts:
            st = self.visit(st)
            new = st if isinstance(st, list) else [st]
            out.append(self._yield(new[0]))
            out.extend(new)
        return out

    def visit_FunctionDef(self, node):
        node.body = self._body(node.body)
        node.decorator_list = []
        node.returns = None
        return node

    def visit_If(self, node):
        node.test = self.visit(node.test)
        node.body = self._body(node.body)
        node.orelse = self._body(node.orelse) if node.orelse else []
        return node

    def visit_For(self, node):
        node.iter = self.visit(node.iter)
        node.body = self._body(node.body)
        node.orelse = self._body(node.orelse) if node.orelse else []
        return node

    def visit_While(self, node):
        node.test = self.visit(node.test)
        node.body = self._body(node.body)
        return node

    def visit_With(self, node):
        node.items = [self.visit(i) for i in node.items]
        node.body = self._body(node.body)
        if len(node.items) == 1 and node.items[0].optional_vars is None and "lock" in ast.unparse(node.items[0].context_expr).lower():
            # `with self._some_lock:` -> simulated mutual exclusion: acquire blocks this (generator) thread while another one
            # holds the lock; the body keeps its yields, so threads NOT using the lock still interleave with it
            ctx = node.items[0].context_expr
            acq = ast.Expr(value=ast.YieldFrom(value=ast.Call(func=ast.Name(id="_GENCALL_", ctx=ast.Load()),
                                                              args=[ast.Name(id="_SIMLOCK_ACQUIRE_", ctx=ast.Load()), ctx], keywords=[])))
            rel = ast.Expr(value=ast.Call(func=ast.Name(id="_SIMLOCK_RELEASE_", ctx=ast.Load()),
                                          args=[ast.parse(ast.unparse(ctx), mode="eval").body], keywords=[]))
            tr = ast.Try(body=node.body, handlers=[], orelse=[], finalbody=[rel])
            for n in (acq, rel, tr):
                ast.copy_location(n, node)
            return [acq, tr]
        return node

    def visit_Try(self, node):
        node.body = self._body(node.body)
        for h in node.handlers:
            h.body = self._body(h.body)
        node.orelse = self._body(node.orelse) if node.orelse else []
        node.finalbody = self._body(node.finalbody) if node.finalbody else []
        return node

    def visit_Lambda(self, node):
        return node     # lambdas stay plain callables (atomic)

    def visit_AugAssign(self, node):
        # x += e  ->  tmp = x ; yield ; x = tmp + e       (the classic lost-update window)
        self.tmp += 1
        name = "__aug%d" % self.tmp
        load_target = ast.parse(ast.unparse(node.target), mode="eval").body
        value = self.visit(node.value)
        a1 = ast.Assign(targets=[ast.Name(id=name, ctx=ast.Store())], value=load_target)
        a2 = ast.Assign(targets=[node.target], value=ast.BinOp(left=ast.Name(id=name, ctx=ast.Load()), op=node.op, right=value))
        for n in (a1, a2):
            ast.copy_location(n, node)
            ast.fix_missing_locations(n)
        return [a1, self._yield(node), a2]

    def visit_Call(self, node):
        self.generic_visit(node)
        wrap = False
        if isinstance(node.func, ast.Attribute) and (node.func.attr in self.wrap_names or node.func.attr.lstrip("_") in self.wrap_names):
            wrap = True
        if isinstance(node.func, ast.Name) and node.func.id in self.local_gens:
            wrap = True
        if not wrap:
            return node
        call = ast.Call(func=ast.Name(id="_GENCALL_", ctx=ast.Load()), args=[node.func] + node.args, keywords=node.keywords)
        yf = ast.YieldFrom(value=call)
        return ast.copy_location(yf, node)


_HELD = set()


def _simlock_acquire(lock):
    while id(lock) in _HELD:
        yield ("block", lambda: id(lock) not in _HELD)
    _HELD.add(id(lock))


def _simlock_release(lock):
    _HELD.discard(id(lock))


def reset_locks():
    _HELD.clear()


def stepify(func, wrap_names, owner=None, extra_globals=None):
    """Return a generator function with the behaviour of `func`, yielding before every statement."""
    src = textwrap.dedent(inspect.getsource(func))
    tree = ast.parse(src)
    fdef = tree.body[0]
    local_gens = [n.name for n in ast.walk(fdef) if isinstance(n, ast.FunctionDef) and n is not fdef]
    tr = _Stepper(wrap_names, local_gens)
    fdef = tr.visit(fdef)
    if owner is not None:       # keep private-name mangling (self.__check_open) by compiling inside a class of that name
        cls = ast.ClassDef(name=owner.__name__, bases=[], keywords=[], body=[fdef], decorator_list=[])
        if hasattr(ast, "TypeVar"):
            cls.type_params = []
        mod = ast.Module(body=[cls], type_ignores=[])
    else:
        mod = ast.Module(body=[fdef], type_ignores=[])
    ast.fix_missing_locations(mod)
    g = func.__globals__           # the live module namespace: later rebinding of module names (stubs) is seen
    g["_GENCALL_"] = gen_call
    g["_SIMLOCK_ACQUIRE_"] = _simlock_acquire
    g["_SIMLOCK_RELEASE_"] = _simlock_release
    if extra_globals:
        g.update(extra_globals)
    code = compile(mod, "<stepped %s>" % func.__qualname__, "exec")
    ns = {}
    exec(code, g, ns)
    if owner is not None:
        d = ns[owner.__name__].__dict__
        out = d[fdef.name] if fdef.name in d else d["_%s%s" % (owner.__name__.lstrip("_"), fdef.name)]
    else:
        out = ns[fdef.name]
    out.__stepped_from__ = func
    return out


# ----------------------------------------------------------------------------------------------------------------
# simulated executor
# ----------------------------------------------------------------------------------------------------------------
class SimFuture:
    def __init__(self):
        self.is_done = False
        self._result = None
        self._exc = None
        self._cbs = []

    def done(self):
        return self.is_done

    def exception(self, timeout=None):
        return self._exc

    def result(self, timeout=None):
        while not self.is_done:
            yield ("block", self.done)
        if self._exc is not None:
            raise self._exc
        return self._result

    def add_done_callback(self, cb):
        if self.is_done:
            yield from gen_call(cb, self)
        else:
            self._cbs.append(cb)
            return
            yield  # pragma: no cover  (makes this a generator function)


class SimPool:
    """FIFO work queue served by the scheduler's worker threads (contract of ThreadPoolExecutor(max_workers=n))."""

    def __init__(self, sched, workers=2):
        self.queue = []
        self.sched = sched
        self.ran = []
        for i in range(workers):
            sched.spawn("worker%d" % (i + 1), self._worker(i + 1), daemon=True)

    def submit(self, task, *args):
        f = SimFuture()
        self.queue.append((f, task, args))
        return f

    def _worker(self, ident):
        while True:
            while not self.queue:
                yield ("block", lambda: len(self.queue) > 0)
            f, task, args = self.queue.pop(0)
            yield "picked"
            try:
                r = yield from gen_call(task, *args)
                f._result = r
            except BaseException as e:  # noqa  (concurrent.futures stores BaseException too)
                if type(e).__module__.startswith("crosshair"):
                    raise
                f._exc = e
            f.is_done = True
            yield "completed"
            cbs, f._cbs = f._cbs, []
            for cb in cbs:
                try:
                    yield from gen_call(cb, f)
                except Exception:
                    pass        # concurrent.futures logs and ignores exceptions raised by callbacks


class Deadlock(Exception):
    pass


class Sched:
    """Runs generator threads. The running thread continues until it ends or blocks, except at the pre-emption points
    `preempt` = [(global step index, target thread index)]; forced switches take the next value of `picks` (mod #runnable)."""

    def __init__(self, preempt=(), picks=()):
        self.threads = []       # [name, gen, state('run'|'block'|'done'), predicate, daemon]
        self.preempt = list(preempt)
        self.picks = list(picks)
        self.pi = 0
        self.step = 0
        self.cur = 0
        self.current_name = None
        self.trace = []

    def spawn(self, name, gen, daemon=False):
        self.threads.append([name, gen, "run", None, daemon])
        return len(self.threads) - 1

    def _runnable(self):
        out = []
        for i, t in enumerate(self.threads):
            if t[2] == "block" and t[3]():
                t[2] = "run"
            if t[2] == "run":
                out.append(i)
        return out

    def run(self, max_steps=2000):
        while True:
            foreground = [t for t in self.threads if not t[4] and t[2] != "done"]
            runnable = self._runnable()
            if not runnable:
                if foreground:
                    raise Deadlock([t[0] for t in foreground])
                return
            busy_daemons = [i for i in runnable if self.threads[i][4]]
            if not foreground and not busy_daemons:
                return
            # pre-emption?
            for (at, target) in self.preempt:
                if self.step == at:
                    cand = runnable[target % len(runnable)]
                    self.cur = cand
            if self.cur not in runnable:
                if self.pi < len(self.picks):
                    self.cur = runnable[self.picks[self.pi] % len(runnable)]
                    self.pi += 1
                else:
                    self.cur = runnable[0]
            t = self.threads[self.cur]
            self.current_name = t[0]
            self.step += 1
            if self.step > max_steps:
                raise Deadlock("step budget exceeded")
            try:
                y = next(t[1])
            except StopIteration:
                t[2] = "done"
                continue
            if isinstance(y, tuple) and y and y[0] == "block":
                t[2], t[3] = "block", y[1]
