"""C10 Conditions and expressions: gate firing, frame scope, errors contained."""
from vlib import world
from vlib.world import World, FakeFrame, plugins

PROPERTY = "C10"
FUNCTIONS = ["ActionContext.can_trigger/eval_watch/process/__exit__", "TriggerContext.evaluate_expression", "utils.str2bool",
             "SnapshotActionContext._process_action", "LogActionContext.process_log", "MetricActionContext._process_metric",
             "LocationAction.can_trigger/record_triggered"]
STUBS = ["FakeFrame with separate f_globals / f_locals dicts", "time_ns -> scripted", "RecPush", "recording plugins",
         "logging -> no-op"]
OUTSIDE = ["conditions whose value is not a bool (truthiness of arbitrary objects is not fixed by the property)",
           "side-effecting expressions"]


class HostBase(BaseException):
    pass


def _raiser(kind, msg):
    def f():
        if kind == 0:
            raise Exception(msg)
        if kind == 1:
            raise HostBase(msg)
        if kind == 2:
            raise KeyboardInterrupt(msg)
        raise SystemExit(msg)
    return f


CONDS = ["c", "c == True", "not (not c)", "undefined_name", "1/0", "boom()", "   ", None, "c and hg == 42",
         # conditions that FAIL on some hits and hold on others: `late` is bound only on the hits where c is true
         "late > 0", "1 / int(c) == 1"]


def _cond_truth(ci, c):
    if ci in (0, 1, 2):
        return c
    if ci in (3, 4, 5):
        return False
    if ci in (6, 7):
        return True
    return c  # hg is a host-module global equal to 42


def cond_gate(ci: int, c1: bool, c2: bool, c3: bool, fc: int, bk: int, msg: str, ak: int) -> str:
    """
    A conditional tracepoint over three hits: collects exactly on the hits whose condition is true, within fire_count;
    rejected hits (false / failing) use no budget. The failing condition raises an exception whose MESSAGE is symbolic.
    The gated action is a snapshot (ak 0), a log line (1), a metric (2) or a span (3).
    PRE: 0 <= ci <= 10 and 0 <= bk <= 3 and len(msg) <= 4 and 0 <= ak <= 3
    POST: _ == ""
    """
    world.begin_path()
    from deep.api.tracepoint.trigger import build_trigger
    from deep.api.tracepoint.tracepoint_config import MetricDefinition
    P = plugins()
    log = []
    w = World(plugin_list=[P["RecLogger"](log), P["RecMetricProcessor"](log), P["RecSpanProcessor"](log)])
    ci, bk, ak = world.realize(ci), world.realize(bk), world.realize(ak)
    args = {"fire_count": fc, "fire_period": "0"}
    if CONDS[ci] is not None:
        args["condition"] = CONDS[ci]
    metrics = []
    if ak == 1:
        args.update(snapshot="no_collect", log_msg="m")
    elif ak == 2:
        args.update(snapshot="no_collect")
        metrics = [MetricDefinition("m", "COUNTER")]
    elif ak == 3:
        args.update(snapshot="no_collect", span="line")
    w.install([build_trigger("tp1", "f.py", 7, args, [], metrics)])
    fired = []
    hits = [c1, c2, c3]
    for i, c in enumerate(hits):
        w.clock.t = 10 + i
        before = len(w.push.snapshots) + len([e for e in log if e[0] in ("log", "counter", "open")])
        cv = world.realize(c)
        f_locals = {"c": cv, "boom": _raiser(bk, msg)}
        if cv:
            f_locals["late"] = 1
        frame = FakeFrame("/app/f.py", "fn", 7, f_locals, {"hg": 42})
        w.event(frame, "line", None)
        if len(w.push.snapshots) + len([e for e in log if e[0] in ("log", "counter", "open")]) != before:
            fired.append(i)
    world.reached()
    want, n = [], 0
    for i, c in enumerate(hits):
        if _cond_truth(ci, c) and (fc == -1 or n < fc):
            want.append(i)
            n += 1
    if fired != want:
        extra = [i for i in fired if i not in want]
        if extra:
            if not _cond_truth(ci, hits[extra[0]]):
                return "C10:collected-although-condition-" + ("failed" if ci in (3, 4, 5) else "false")
            return "C10:budget-exceeded"
        return "C10:true-hit-lost(budget-used-by-rejected-hit?)"
    return ""


NAMES = ["x", "hg", "len", "uuid", "FrameCollector", "time_ns", "VariableCacheProvider", "deep", "__name__",
         # expressions are evaluated as written: white space inside string literals is part of the program text
         "len('a  b')", "len('a\tb') + x", "'p  q' if x else ' \t'", "x   +  1"]


def _py_eval(expr, g, l):
    try:
        return True, eval(expr, g, l)
    except BaseException as e:  # noqa
        return False, e


def _watch_matches(snapshot, wr, ok, val):
    """Watch result agrees with Python's own evaluation (value rendering: type name + str)."""
    if ok:
        if wr.error is not None or wr.result is None:
            return False
        v = snapshot.var_lookup.get(wr.result.vid)
        return v is not None and v.type == type(val).__name__ and v.value == str(val)
    # failing expression: either error text or a result variable of the exception's type holding its message
    if wr.error is not None:
        return str(val) in wr.error or type(val).__name__ in wr.error
    if wr.result is None:
        return False
    v = snapshot.var_lookup.get(wr.result.vid)
    return v is not None and v.type == type(val).__name__


def scope(ni: int, site: int, lv: int, gv: int, shadow: bool) -> str:
    """
    Which names an expression sees: the frame's locals and its module globals and builtins; nothing of the agent's.
    site 0: watch, 1: log field, 2: metric label expression, 3: condition.
    PRE: 0 <= ni <= 12 and 0 <= site <= 3 and 0 <= lv <= 1 and 0 <= gv <= 1
    POST: _ == ""
    """
    world.begin_path()
    from deep.api.tracepoint.trigger import build_trigger
    from deep.api.tracepoint.tracepoint_config import MetricDefinition, LabelExpression
    P = plugins()
    log = []
    w = World(plugin_list=[P["RecLogger"](log), P["RecMetricProcessor"](log)])
    ni, site, lv, gv, shadow = [world.realize(x) for x in (ni, site, lv, gv, shadow)]
    name = NAMES[ni]
    g = {"hg": gv, "__name__": "hostmod"}
    l = {"x": lv}
    if shadow:
        l["hg"] = lv + 100
    expr = name if ni != 2 else "len('abc')"
    args = {"fire_count": "-1", "fire_period": "0"}
    watches, metrics = [], []
    if site == 0:
        watches = [expr]
    elif site == 1:
        args["log_msg"] = "v={%s}" % expr
    elif site == 2:
        args["snapshot"] = "no_collect"
        metrics = [MetricDefinition("m", "COUNTER", [LabelExpression("k", None, expr)])]
    else:
        ok0, val0 = _py_eval(expr, dict(g), dict(l))
        args["condition"] = ("(%s) == %r" % (expr, val0)) if ok0 else ("(%s) is not None or True" % expr)
    w.install([build_trigger("tp1", "f.py", 7, args, watches, metrics)])
    frame = FakeFrame("/app/f.py", "fn", 7, l, g)
    g_before = dict(g)
    w.event(frame, "line", None)
    world.reached()
    if {k: v for k, v in g.items() if k != "__builtins__"} != g_before:
        return "C10:scope:evaluation-changed-the-module-globals"
    ok, val = _py_eval(expr, dict(g), l)
    if site == 0:
        if len(w.push.snapshots) != 1:
            return "C10:scope:no-snapshot"
        s = w.push.snapshots[0]
        wr = [x for x in s.watches if x.expression == expr]
        if len(wr) != 1 or not _watch_matches(s, wr[0], ok, val):
            return "C10:scope:watch-sees-%s-scope" % ("wrong" if ok else "agent")
    elif site == 1:
        s = w.push.snapshots[0] if w.push.snapshots else None
        if s is None or s.log_msg is None:
            return "C10:scope:no-log"
        if ok:
            if s.log_msg != "[deep] v=%s" % (val,):
                return "C10:scope:log-field-sees-wrong-scope"
        else:
            if type(val).__name__ not in s.log_msg and str(val) not in s.log_msg:
                return "C10:scope:log-field-sees-agent-scope"
    elif site == 2:
        calls = [e for e in log if e[0] == "counter"]
        if len(calls) != 1:
            return "C10:scope:no-metric"
        got = calls[0][2].get("k")
        if ok:
            if got != str(val):
                return "C10:scope:metric-label-sees-wrong-scope"
        else:
            if got == "expression failed":
                return ""
            if type(val).__name__ not in str(got) and str(val) not in str(got):
                return "C10:scope:metric-label-sees-agent-scope"
    else:
        fired = len(w.push.snapshots) == 1
        if fired != ok:
            return "C10:scope:condition-sees-%s-scope" % ("wrong" if ok else "agent")
    return ""


FAILS = ["undefined_name", "1/0", "boom()", "x.nope", "x[5]", "int('z')"]


def isolation(fi: int, bk: int, pos: int, lv: int) -> str:
    """
    A failing expression yields an error result for that expression only: the other watches and the frame's variables
    are intact and the snapshot is still delivered.
    PRE: 0 <= fi <= 5 and 0 <= bk <= 3 and 0 <= pos <= 2 and -1 <= lv <= 1
    POST: _ == ""
    """
    world.begin_path()
    from deep.api.tracepoint.trigger import build_trigger
    w = World()
    fi, bk, pos, lv = [world.realize(x) for x in (fi, bk, pos, lv)]
    good = ["x", "y + 1"]
    watches = list(good)
    watches.insert(pos, FAILS[fi])
    w.install([build_trigger("tp1", "f.py", 7, {"fire_count": "-1", "fire_period": "0"}, watches, [])])
    l = {"x": lv, "y": 10, "boom": _raiser(bk, "m")}
    before = dict(l)
    frame = FakeFrame("/app/f.py", "fn", 7, l, {})
    w.event(frame, "line", None)
    world.reached()
    if l != before:
        return "C10:isolation:locals-mutated"
    if len(w.push.snapshots) != 1:
        return "C10:isolation:snapshot-lost"
    s = w.push.snapshots[0]
    if [x.expression for x in s.watches] != watches:
        return "C10:isolation:watch-list-wrong"
    for wr in s.watches:
        ok, val = _py_eval(wr.expression, {}, dict(before))
        if not _watch_matches(s, wr, ok, val):
            return "C10:isolation:" + ("good-watch-damaged" if ok else "failing-watch-has-no-error-result")
    names = sorted(v.name for v in s.frames[0].variables)
    if names != ["boom", "x", "y"]:
        return "C10:isolation:frame-variables-damaged"
    for v in s.frames[0].variables:
        if v.vid not in s.var_lookup:
            return "C10:isolation:dangling-frame-variable"
        if v.name == "x" and s.var_lookup[v.vid].value != str(lv):
            return "C10:isolation:frame-variable-value-wrong"
    return ""


def _mut_agent_globals():
    import deep.processor.context.trigger_context as tc

    def evaluate_expression(self, expression):
        try:
            return eval(expression, tc.__dict__, self._TriggerContext__frame.f_locals)
        except BaseException as e:  # noqa
            return e
    tc.TriggerContext.evaluate_expression = evaluate_expression


def _mut_record_before_condition():
    from deep.processor.context.action_context import ActionContext
    orig = ActionContext.can_trigger

    def can_trigger(self):
        r = orig(self)
        if not r and self.location_action.can_trigger(self.trigger_context.ts):
            self.location_action.record_triggered(self.trigger_context.ts)
        return r
    ActionContext.can_trigger = can_trigger


def _mut_failed_condition_by_message():
    from deep.processor.context.action_context import ActionContext
    from deep.utils import str2bool

    def can_trigger(self):
        if not self.location_action.can_trigger(self.trigger_context.ts):
            return False
        if self.location_action.condition is None or len(self.location_action.condition.strip()) == 0:
            return True
        result = self.trigger_context.evaluate_expression(self.location_action.condition)
        return str2bool(str(result))
    ActionContext.can_trigger = can_trigger


MUTANTS = {"agent_globals": _mut_agent_globals, "record_before_condition": _mut_record_before_condition,
           "failed_condition_by_message": _mut_failed_condition_by_message}

CONDITIONS = [
    dict(fn="cond_gate", cubes=["ci == %d and bk == %d and ak == 0" % (i, b) for i in range(11) for b in ((0, 1, 2, 3) if i == 5 else (0,))] +
                              ["ci == %d and bk == 0 and ak == %d" % (i, a) for i in (0, 3, 5, 7) for a in (1, 2, 3)],
         twins=["reach", "mutant:record_before_condition@ci == 0 and bk == 0 and ak == 0", "mutant:failed_condition_by_message@ci == 5 and bk == 0 and ak == 0 and len(msg) <= 1 and fc == -1 and not c1 and not c2 and not c3",
                "mutant:agent_globals@ci == 8 and bk == 0 and ak == 0"],
         bounds="3 hits, per-hit boolean local symbolic, fire_count unbounded int, 11 condition flavours incl. always-failing ones and two that fail on some hits and hold on others; a failing one's "
                "exception message is a free string <= 4 chars, 4 exception classes (Exception, BaseException subclass, KeyboardInterrupt, SystemExit); the gated action is a snapshot, a log line, a metric or a span"),
    dict(fn="scope", cubes=["ni == %d and site == %d" % (n, s) for n in range(13) for s in range(4)],
         twins=["reach", "mutant:agent_globals@ni == 1 and site == 0", "mutant:agent_globals@ni == 3 and site == 3"],
         bounds="9 names (local, host global, builtin, 5 agent-module names, __name__) and 4 expressions with significant white space (inside string literals: two blanks, a TAB) x 4 evaluation sites; values 0..1; local shadowing the global"),
    dict(fn="isolation", cubes=["fi == %d and bk == %d" % (i, b) for i in range(6) for b in ((0, 1, 2, 3) if i == 2 else (0,))], twins=["reach"],
         bounds="3 watches, one failing (6 flavours x 4 exception classes) at any position"),
]
