"""C02 Snapshot fidelity: a snapshot truthfully describes the paused frame."""
from vlib import world
from vlib.world import World, FakeFrame
from vlib import graphs, reader

PROPERTY = "C02"
FUNCTIONS = ["FrameCollector.collect/_process_frame/parse_short_name", "VariableSetProcessor.*", "variable_processor.*",
             "SnapshotActionContext._process_action/should_collect_vars/is_app_frame", "LocationAction.tracepoint",
             "EventSnapshot", "ConfigService.is_app_frame", "ActionContext.eval_watch", "build_trigger/build_snapshot_action",
             "TriggerHandler.trace_call"]
STUBS = ["FakeFrame chain linked through f_back", "time_ns -> symbolic instant", "RecPush", "logging -> no-op"]
OUTSIDE = ["frames not reachable through f_back", "async / generator frame flags (always False in the code)",
           "graphs are instances of 9 templates", "order among sibling variables (not fixed by the property)"]


class A:
    def __init__(self):
        self.x = 1


class B:
    pass


class EmptyBag(list):
    """A container subclass that is falsy while empty: `self` of its methods is falsy."""


class Falsy:
    def __bool__(self):
        return False


class BoolRaises:
    def __bool__(self):
        raise RuntimeError("truth value is ambiguous")


FILES = ["/app/m.py", "/app/vendor/v.py", "/lib/inc/i.py", "/usr/x.py", "/app/pkg/app/m.py", "/lib/inc/lib/inc/i.py"]
# expected (app_frame, short_path) with APP_ROOT=/app, include=/lib/inc, exclude=/app/vendor (exclusion wins)
EXPECT = {"/app/m.py": (True, "/m.py"), "/app/vendor/v.py": (False, "/v.py"), "/lib/inc/i.py": (True, "/i.py"),
          "/usr/x.py": (False, "/usr/x.py"), "/app/pkg/app/m.py": (True, "/pkg/app/m.py"),
          "/lib/inc/lib/inc/i.py": (True, "/lib/inc/i.py")}
TOPS = [(0, 0), (0, 1), (0, 2), (1, 0), (2, 3), (3, 0), (0, 4), (0, 5), (0, 6), (4, 1), (5, 0)]      # (file index, self kind) of the top frame
LOWERS = [(0, 0), (1, 1), (2, 2), (3, 3), (0, 4), (1, 5)]      # (file index, self kind) of the lower frames
FRAME_TYPES = ["single_frame", "all_frame", "no_frame", "bogus_type", None]


def _self_obj(kind):
    return [None, A(), B(), "NONE", EmptyBag(), Falsy(), BoolRaises()][kind]


def _with_self(loc, kind):
    o = _self_obj(kind)
    if o is None:
        return loc
    d = {"self": None if o == "NONE" else o}
    d.update(loc)
    return d


def fidelity(depth: int, ft: int, kind: int, t: int, top: int, lower: int, nw: int, line0: int, line1: int, ts: int) -> str:
    """
    A stack of 1-3 frames (files in/outside the app root / include / exclude prefixes, self absent / instance / None / falsy instance (empty container subclass, __bool__ False or raising)),
    top-frame locals from a graph template, frame_type single/all/none/unknown/absent, 0-2 watches, line or method
    tracepoint, the snapshot equals an independent reading.
    PRE: 1 <= depth <= 3 and 0 <= ft <= 4 and 0 <= kind <= 1 and 0 <= t <= 10 and 0 <= top <= 10 and 0 <= lower <= 5 and 0 <= nw <= 2
    PRE: ts > 0 and line0 >= 1 and line1 >= 1
    PRE: kind == 0 or ft == 0
    PRE: depth > 1 or lower == 0
    POST: _ == ""
    """
    world.begin_path()
    from deep.api.tracepoint.trigger import build_trigger
    depth, ft, kind, t, top, lower, nw = [world.realize(x) for x in (depth, ft, kind, t, top, lower, nw)]
    line0, line1, ts = 17, 40, 123456789      # concrete: symbolic lines / instants are the subject of C03 / C04
    w = World(custom={"APP_ROOT": "/app", "IN_APP_INCLUDE": ["/lib/inc"], "IN_APP_EXCLUDE": ["/app/vendor"]})
    w.clock.t = ts
    # ---- the stack (bottom-up)
    frames, locs = [], []
    prev = None
    for i in range(depth - 1, 0, -1):
        fi, sk = LOWERS[(lower + i) % 6]
        loc = _with_self({"p%d" % i: i, "q": [i, "s"]}, sk)
        fr = FakeFrame(FILES[fi], "caller%d" % i, line1 + i, loc, {}, prev)
        frames.insert(0, fr)
        locs.insert(0, loc)
        prev = fr
    fi, sk = TOPS[top]
    base = graphs.template(t, 2 if t not in (5, 6) else 0)
    loc0 = _with_self(base, sk)
    topname = FILES[fi]
    f0 = FakeFrame(topname, "fn", line0, loc0, {}, prev)
    frames.insert(0, f0)
    locs.insert(0, loc0)
    # ---- the tracepoint
    names = [k for k in base.keys()]
    watches = [names[0], names[-1] + " is not None"][:nw]
    args = {"fire_count": "-1", "fire_period": "0"}
    if FRAME_TYPES[ft] is not None:
        args["frame_type"] = FRAME_TYPES[ft]
    if kind == 1:
        args["method_name"] = "fn"
    path = topname.rsplit("/", 1)[1]
    w.install([build_trigger("tp1", path, line0, args, list(watches), [])])
    w.event(f0, "line" if kind == 0 else "call", None)
    world.reached()
    if len(w.push.snapshots) != 1:
        return "C02:no-snapshot"
    s = w.push.snapshots[0]
    # ---- frames
    if len(s.frames) != depth:
        return "C02:stack-length"
    for i, (sf, fr, loc) in enumerate(zip(s.frames, frames, locs)):
        if sf.file_name != fr.f_code.co_filename:
            return "C02:frame-file"
        if sf.method_name != fr.f_code.co_name:
            return "C02:frame-function"
        if sf.line_number != fr.f_lineno:
            return "C02:frame-line"
        so = loc.get("self", None)
        want_cls = type(so).__name__ if so is not None else None
        if sf.class_name != want_cls:
            return "C02:frame-class-of-self"
        app, short = EXPECT[fr.f_code.co_filename]
        if bool(sf.app_frame) != app:
            return "C02:frame-app-flag"
        if sf.short_path != short:
            return "C02:frame-short-path"
        ftype = FRAME_TYPES[ft]
        want_vars = (ftype == "all_frame") or (ftype != "no_frame" and i == 0)
        if not want_vars:
            if len(sf.variables) != 0:
                return "C02:variables-on-a-frame-the-frame_type-excludes"
        else:
            r = reader.check_frame_fidelity(s, i, loc, 1024, 10, 5, require_all_locals=True, complete=True)
            if r:
                return "C02:frame%d:%s" % (i, r)
    # ---- watches: evaluated against the top frame
    if [x.expression for x in s.watches] != watches:
        return "C02:watch-list"
    for x in s.watches:
        val = eval(x.expression, {}, dict(loc0))
        if x.result is None or x.result.vid not in s.var_lookup:
            return "C02:watch-result-missing"
        v = s.var_lookup[x.result.vid]
        if v.type != type(val).__name__:
            return "C02:watch-type"
        txt = reader.text_of(val)
        if txt is not None and v.value != txt:
            return "C02:watch-value"
        if x.expression in loc0 and v.hash != str(id(loc0[x.expression])):
            return "C02:watch-not-the-frame-object"
    # ---- the tracepoint that fired + time
    tp = s.tracepoint
    if tp.id != "tp1" or tp.path != path:
        return "C02:tracepoint-id-or-path"
    if kind == 0 and tp.line_no != line0:
        return "C02:tracepoint-line"
    if list(tp.watches) != watches:
        return "C02:tracepoint-watches"
    for k, v in tp.args.items():
        default = {"frame_type": "single_frame", "stack_type": "stack", "fire_count": "1", "fire_period": "1000"}.get(k)
        want = args.get(k, default)
        if k in ("log_msg", "watches"):
            continue
        if v != want:
            return "C02:tracepoint-argument-misreported"
    if s.ts_nanos != ts:
        return "C02:timestamp"
    if dict(s.resource.attributes) != dict(w.config.resource.attributes):
        return "C02:resource"
    return ""


def _mut_swap_file_short():
    import deep.processor.frame_collector as fc
    real = fc.StackFrame

    def StackFrame(file_name, short_path, *a, **k):
        return real(short_path, file_name, *a, **k)
    fc.StackFrame = StackFrame


def _mut_all_means_single():
    from deep.processor.context.snapshot_action import SnapshotActionContext
    SnapshotActionContext.should_collect_vars = lambda self, i: i == 0 and self.location_action.config.get("frame_type") != "no_frame"


def _mut_class_of_type():
    import deep.processor.frame_collector as fc
    real = fc.StackFrame

    def StackFrame(file_name, short_path, func_name, lineno, var_ids, class_name, **k):
        return real(file_name, short_path, func_name, lineno, var_ids, "type" if class_name else class_name, **k)
    fc.StackFrame = StackFrame


def _mut_size_as_str():
    import deep.processor.variable_processor as vp
    orig = vp.variable_to_string

    def variable_to_string(variable_type, var_value):
        if variable_type is tuple:
            return str(var_value)
        return orig(variable_type, var_value)
    vp.variable_to_string = variable_to_string


MUTANTS = {"swap_file_short": _mut_swap_file_short, "all_means_single": _mut_all_means_single, "class_of_type": _mut_class_of_type,
           "size_as_str": _mut_size_as_str}

CONDITIONS = [
    dict(fn="fidelity",
         cubes={"quick": ["depth == %d and ft == %d and kind == %d and top == %d and lower <= 3 and t in (0, 4, 8, 9, 10) and nw != 1" % (d, f, k, tp)
                          for d in (1, 2, 3) for (f, k) in ((0, 0), (1, 0), (2, 0), (3, 0), (4, 0), (0, 1)) for tp in range(6)] +
                         ["depth == %d and ft == %d and kind == 0 and top == %d and lower %s and t in (0, 4, 8, 9, 10) and nw != 1" % (d, f, tp, lo)
                          for (d, f, lo) in ((1, 0, "== 0"), (2, 1, ">= 4")) for tp in (6, 7, 8, 9, 10)],
                "thorough": ["depth == %d and ft == %d and kind == %d and t == %d and top == %d" % (d, f, k, t, tp) for d in (1, 2, 3)
                             for (f, k) in ((0, 0), (1, 0), (2, 0), (3, 0), (4, 0), (0, 1)) for t in range(11) for tp in ((0, 1, 2, 3, 4, 5, 6, 7, 8, 9, 10) if (f, k) == (0, 0) else (0, 1, 4, 6, 9))]},
         twins=["reach", "mutant:swap_file_short@depth == 1 and ft == 0 and kind == 0 and top == 1 and t in (0, 4, 8, 9, 10) and nw != 1",
                "mutant:all_means_single@depth == 2 and ft == 1 and kind == 0 and top == 1 and t in (0, 4, 8, 9, 10) and nw != 1",
                "mutant:class_of_type@depth == 1 and ft == 0 and kind == 0 and top == 1 and t in (0, 4, 8, 9, 10) and nw != 1",
                "mutant:size_as_str@depth == 1 and ft == 0 and kind == 0 and top == 1 and t in (0, 4, 8, 9, 10) and nw != 1"],
         timeout={"quick": 420, "thorough": 900},
         bounds="stack depth 1-3; 9 top-frame (file, self) variants and 6 lower-frame variants over 4 files (app root / excluded / included / outside); 11 graph "
                "templates for the top frame's locals incl. an object presenting another __class__, an int too large for str(), tuple subclasses / structseq, a dict with unorderable keys, a range (quick 5); 5 frame_type settings; 0-2 watches; line and method tracepoints"),
]
