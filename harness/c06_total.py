"""C06 Collection is total and per-tracepoint independent."""
import collections
import datetime
import enum
import sys

from vlib import world
from vlib.world import World, FakeFrame, plugins
from vlib import reader

PROPERTY = "C06"
FUNCTIONS = ["FrameCollector.collect/_process_frame", "VariableSetProcessor.process_variable/search_function",
             "variable_processor.process_variable/variable_to_string/process_child_nodes/find_children_for_parent/"
             "process_dict_breadth_first/process_list_breadth_first/var_modifiers/correct_names",
             "SnapshotActionContext._process_action", "ActionContext.eval_watch", "TriggerContext.__exit__",
             "SendSnapshotActionResult.process", "push.convert_snapshot (real protobuf)"]
STUBS = ["FakeFrame", "RecPush", "time_ns fixed", "logging -> no-op", "real protobuf classes for the conversion step"]
OUTSIDE = ["return values / exception arguments as capture results (C15)", "text that is not valid UTF-8 is reported as a known finding"]


class Color(enum.Enum):
    RED = 1


class Slotted:
    __slots__ = ("a",)

    def __init__(self):
        self.a = 1


def _mk_raiser(exc_kind):
    exc = [ValueError, KeyError, RuntimeError, KeyboardInterrupt, SystemExit, GeneratorExit][exc_kind]

    class BadStr:
        def __str__(self):
            raise exc("nostr")

    class BadRepr:
        def __repr__(self):
            raise exc("norepr")

    class BadLen(list):
        def __len__(self):
            raise exc("nolen")

    class BadAttr:
        def __getattribute__(self, n):
            if n in ("__init__", "__new__", "__reduce_ex__", "__deepcopy__", "__copy__", "__getstate__", "__class__"):
                return object.__getattribute__(self, n)     # construction / copying by the interpreter and the engine
            raise exc("noattr " + str(n))

    class BadDictProp:
        @property
        def __dict__(self):
            raise exc("nodict")

    class BadKeyStr:
        def __str__(self):
            raise exc("nokeystr")

        def __hash__(self):
            return 7

        def __eq__(self, o):
            return self is o
    return BadStr, BadRepr, BadLen, BadAttr, BadDictProp, BadKeyStr


class NonStrAttr:
    pass


def _gen():
    yield 1
    yield 2


N_KINDS = 37


# built at import, i.e. outside the engine: under tracing CrossHair substitutes its own pure-Python datetime class, whose
# instances carry mutable bookkeeping attributes (_hashcode, _ord) that change between collection and comparison
_DATETIME = datetime.datetime(2020, 1, 2, 3, 4, 5)


def offending(kind, exc_kind=0):
    """Return (value, is_hostile) for the offending-value kind."""
    BadStr, BadRepr, BadLen, BadAttr, BadDictProp, BadKeyStr = _mk_raiser(exc_kind)
    if kind == 0:
        return b"ab", False
    if kind == 1:
        return bytearray(b"ab"), False
    if kind == 2:
        return 1 + 2j, False
    if kind == 3:
        return range(3), False
    if kind == 4:
        return collections.deque([1, 2]), False
    if kind == 5:
        return _DATETIME, False
    if kind == 6:
        return Color.RED, False
    if kind == 7:
        return Slotted(), False
    if kind == 8:
        return {1: "a", 2: "b"}, False
    if kind == 9:
        return {(1, 2): "a"}, False
    if kind == 10:
        return collections.defaultdict(int, {"k": 1}), False
    if kind == 11:
        return collections.OrderedDict(k=1), False
    if kind == 12:
        return _gen(), False
    if kind == 13:
        return iter({"a": 1}.keys()), False
    if kind == 14:
        return memoryview(b"ab"), False
    if kind == 15:
        return len, False
    if kind == 16:
        return BadStr(), True
    if kind == 17:
        return BadRepr(), True
    if kind == 18:
        return BadLen([1]), True
    if kind == 19:
        return BadAttr(), True
    if kind == 20:
        return BadDictProp(), True
    if kind == 21:
        o = NonStrAttr()
        o.__dict__[5] = "five"
        return o, False
    if kind == 22:
        return {BadKeyStr(): 1}, True
    if kind == 23:
        return 1.5, False
    if kind == 24:
        return None, False
    if kind == 25:
        return Slotted, False
    if kind == 26:
        return sys, False
    if kind == 27:
        return ValueError("x", [1]), False
    if kind == 28:
        return frozenset([1]), False
    if kind == 29:
        return iter([1, 2]), False
    if kind == 30:
        return lambda: 1, False
    if kind == 31:
        return "a\ud800b", False       # lone surrogate: not valid UTF-8 text
    if kind == 32:
        return {"k\ud800": 1}, False
    if kind == 33:
        return 1 << 20000, True          # an int whose str() raises ValueError (more than 4300 digits)
    if kind == 34:
        from vlib.graphs import Impostor
        return Impostor(3), False        # __class__ lies about the type
    if kind == 35:
        class LazyBag(list):
            def __bool__(self):
                raise RuntimeError("truth value is ambiguous")

            def __len__(self):
                raise RuntimeError("not loaded")
        return LazyBag(), True
    if kind == 36:
        class EmptyBag(list):
            pass
        return EmptyBag(), False
    if kind == 37:
        return "caf\udce9.txt", False     # lone LOW surrogate: what surrogateescape gives for undecodable bytes (file names, argv)
    if kind == 38:
        return {"k\udc80": "v\udcff"}, False
    if kind == 39:
        return type("list", (), {})(), True           # a user class that is merely NAMED like a built-in container
    if kind == 40:
        BadLen2 = type("tuple", (), {"__len__": lambda self: (_ for _ in ()).throw(RuntimeError("no len"))})
        return BadLen2(), True
    if kind == 41:
        return type("list_iterator", (), {"x": 1})(), False   # named like an iterator type
    if kind == 42:
        return {1: "a", "two": 2, None: 3, (1, "a"): 4}, False     # keys that cannot be ordered against one another
    raise ValueError(kind)


class Holder:
    def __init__(self, v):
        self.held = v
        self.other = 5


def place(value, pos):
    """Locals with the offending value at the chosen position, between two benign neighbours."""
    if pos == 0:
        return {"before": 1, "bad": value, "after": "z"}
    if pos == 1:
        return {"before": 1, "bad": [0, value, 2], "after": "z"}
    if pos == 2:
        return {"before": 1, "bad": {"x": value, "y": 2}, "after": "z"}
    if pos == 3:
        return {"before": 1, "bad": Holder(value), "after": "z"}
    if pos == 5:
        return {"before": 1, "self": value, "after": "z"}       # the receiver of a method
    return {"before": 1, "src": [value], "after": "z"}      # pos 4: reached only through the watch 'src[0]'


def _hostile_ids(f_locals):
    """ids of objects for which text/children are not fixed: the hostile value and every container whose str() embeds it."""
    return set()


def _check_one(s, f_locals, hostile, watch_expr=None):
    names = sorted(r.name for r in s.frames[0].variables)
    if names != sorted(f_locals.keys()):
        return "C06:top-frame-does-not-list-all-locals"
    hid = set()
    if hostile:
        # the hostile object itself has no fixed text; containers are rendered as 'Size: n' so they stay checkable
        for o in _iter_objs(f_locals):
            if type(o).__name__ in ("BadStr", "BadRepr", "BadLen", "BadAttr", "BadDictProp", "BadKeyStr", "Holder", "LazyBag") or \
                    (type(o) is int and o > 10 ** 100) or (type(o).__name__ in ("list", "tuple") and type(o) not in (list, tuple)):
                hid.add(id(o))
            if type(o) is dict and any(type(k).__name__ == "BadKeyStr" for k in o):
                hid.add(id(o))
    r = reader.check_frame_fidelity(s, 0, f_locals, 1024, 10, 5, require_all_locals=True, hostile_ids=hid, complete=True)
    if r:
        return "C06:" + r
    # closure + no entry unreachable from this snapshot's own frames / watches
    roots = []
    for fr in s.frames:
        roots += list(fr.variables)
    for wr in s.watches:
        if wr.result is not None:
            roots.append(wr.result)
    try:
        refs, seen = reader.walk_snapshot(s, roots)
    except reader.Mismatch as e:
        return "C06:" + str(e)
    extra = [k for k in s.var_lookup if k not in seen]
    if extra:
        return "C06:table-holds-entries-unreachable-from-this-snapshot"
    if watch_expr is not None:
        ws = [x for x in s.watches if x.expression == watch_expr]
        if len(ws) != 1 or (ws[0].result is None and ws[0].error is None):
            return "C06:watch-result-missing"
    return ""


def _iter_objs(f_locals):
    seen, work, out = set(), list(f_locals.values()), []
    while work:
        o = work.pop()
        if id(o) in seen:
            continue
        seen.add(id(o))
        out.append(o)
        for (_, _, c) in reader.children_of(o):
            work.append(c)
        if type(o).__name__ == "Holder":
            work.append(o.held)
    return out


def total(kind: int, pos: int, ek: int, ntp: int, conv: int) -> str:
    """
    One offending value (33 kinds; hostile dunder methods raise one of 6 exception classes incl. KeyboardInterrupt /
    SystemExit / GeneratorExit) at one of 5 positions, 1-3 snapshot tracepoints on the line (the last one with a watch):
    one snapshot per tracepoint is delivered and converts, every other variable is intact, the offending value has an
    entry with its real type name, each snapshot is complete and closed on its own.
    PRE: 0 <= kind <= 42 and 0 <= pos <= 5 and 0 <= ek <= 5 and 1 <= ntp <= 3 and 0 <= conv <= 1
    PRE: ek == 0 or kind in (16, 17, 18, 19, 20, 22)
    POST: _ == ""
    """
    world.begin_path()
    from deep.api.tracepoint.trigger import build_trigger
    from deep.grpc import convert_response
    kind, pos, ek, ntp, conv = [world.realize(x) for x in (kind, pos, ek, ntp, conv)]
    value, hostile = offending(kind, ek)
    f_locals = place(value, pos)
    w = World()
    watch = "src[0]" if pos == 4 else ("self" if pos == 5 else "bad")
    trigs = []
    for i in range(ntp):
        watches = [watch] if (i == ntp - 1) else []
        trigs.append(build_trigger("tp%d" % (i + 1), "f.py", 7, {"fire_count": "-1", "fire_period": "0"}, watches, []))
    # several tracepoints on one location arrive merged into one trigger (convert_response); emulate with merge_actions
    first = trigs[0]
    for t in trigs[1:]:
        first.merge_actions(t.actions)
    w.install([first])
    frame = FakeFrame("/app/f.py", "fn", 7, f_locals)
    before_keys = list(f_locals.keys())
    try:
        w.event(frame, "line", None)
    except BaseException as e:  # noqa
        if world.is_engine_exc(e):
            raise
        world.reached()
        return "C06:exception-escaped-the-handler:" + type(e).__name__
    world.reached()
    if list(f_locals.keys()) != before_keys:
        return "C06:locals-mutated"
    ids = [s.tracepoint.id for s in w.push.snapshots]
    if sorted(ids) != ["tp%d" % (i + 1) for i in range(ntp)]:
        return "C06:snapshot-not-produced" if len(ids) < ntp else "C06:snapshot-duplicated"
    tables = [id(s.var_lookup) for s in w.push.snapshots]
    if len(set(tables)) != len(tables):
        return "C06:snapshots-share-one-variable-table"
    for s in w.push.snapshots:
        wexpr = watch if s.tracepoint.id == "tp%d" % ntp else None
        r = _check_one(s, f_locals, hostile, wexpr)
        if r:
            return r + ("" if ntp == 1 else ":with-%d-tracepoints-on-the-line" % ntp)
    if kind == 12:
        if next(value) != 1:
            return "C06:generator-consumed"
    if kind == 29:
        if next(value) != 1:
            return "C06:iterator-consumed"
    if conv:
        from deep.push import convert_snapshot
        for s in w.push.snapshots:
            c = convert_snapshot(s)
            if c is None:
                return "C06:snapshot-does-not-convert(dropped-before-sending)"
            data = c.SerializeToString()
            if len(data) == 0:
                return "C06:empty-message"
    return ""



class _NoText:
    """The result of a condition whose text form cannot be produced."""

    def __str__(self):
        raise RuntimeError("no text")

    def __repr__(self):
        raise RuntimeError("no repr")

    def __bool__(self):
        return True


class _PushFailsFor:
    """Recording push service that fails for ONE tracepoint's snapshot."""

    def __init__(self, tp_id, exc):
        self.snapshots, self.tp_id, self.exc = [], tp_id, exc

    def push_snapshot(self, snapshot):
        if snapshot.tracepoint.id == self.tp_id:
            raise self.exc
        self.snapshots.append(snapshot)


N_SIBLING_FAULTS = 7


def siblings(fk: int, fp: int, ntp: int, kind2: int) -> str:
    """
    2-3 tracepoints share a line; the one at position fp fails for a reason of its OWN (a log message applying a number
    format to text, a malformed message, a condition whose value has no text form, an unusable limit in its
    configuration, a push failure for its snapshot only, a metric action of its own failing): every OTHER tracepoint
    on that line still delivers its complete snapshot, and nothing is raised into the application.
    PRE: 0 <= fk <= 6 and 0 <= fp <= 2 and 2 <= ntp <= 3 and fp < ntp and 0 <= kind2 <= 1
    POST: _ == ""
    """
    world.begin_path()
    from deep.api.tracepoint.trigger import build_trigger
    from deep.api.tracepoint.tracepoint_config import MetricDefinition
    fk, fp, ntp, kind2 = [world.realize(x) for x in (fk, fp, ntp, kind2)]
    f_locals = {"before": 1, "price": "12.5", "cond": _NoText(), "after": "z"}
    push = None
    if fk == 5:
        push = _PushFailsFor("tp%d" % (fp + 1), RuntimeError("send failed"))
    w = World(plugin_list=[plugins()["RecMetricProcessor"]([])], push=push)
    trigs = []
    for i in range(ntp):
        args = {"fire_count": "-1", "fire_period": "0"}
        metrics = []
        if i == fp:
            if fk == 0:
                args["log_msg"] = "price={price:.2f}"
            elif fk == 1:
                args["log_msg"] = "{before"
            elif fk == 2:
                args["condition"] = "cond"
            elif fk == 6:
                metrics = [MetricDefinition("m", "COUNTER", None, None, None, "cond.nope.nope")]
        elif kind2 == 1:
            args["log_msg"] = "ok {before}"
        t = build_trigger("tp%d" % (i + 1), "f.py", 7, args, ["after"] if i != fp else [], metrics)
        if i == fp and fk in (3, 4):
            for a in t.actions:
                a.config["MAX_VARIABLES" if fk == 3 else "MAX_STRING_LENGTH"] = "abc"
        trigs.append(t)
    first = trigs[0]
    for t in trigs[1:]:
        first.merge_actions(t.actions)
    w.install([first])
    frame = FakeFrame("/app/f.py", "fn", 7, f_locals)
    try:
        w.event(frame, "line", None)
    except BaseException as e:  # noqa
        if world.is_engine_exc(e):
            raise
        world.reached()
        return "C06:siblings:exception-escaped-the-handler:" + type(e).__name__
    world.reached()
    got = {}
    for s in w.push.snapshots:
        got.setdefault(s.tracepoint.id, []).append(s)
    for i in range(ntp):
        if i == fp:
            continue
        ss = got.get("tp%d" % (i + 1), [])
        if len(ss) != 1:
            return "C06:siblings:snapshot-of-a-healthy-tracepoint-%s" % ("lost" if not ss else "duplicated")
        r = _check_one(ss[0], f_locals, True, "after")
        if r:
            return r.replace("C06:", "C06:siblings:")
        if kind2 == 1 and ss[0].log_msg != "[deep] ok 1":
            return "C06:siblings:log-message-of-a-healthy-tracepoint-altered"
    return ""


def _mut_dict_unguarded():
    import deep.processor.variable_processor as vp

    def process_child_nodes(var_collector, variable_id, var_value, frame_depth):
        variable_type = type(var_value)
        if variable_type.__name__ in vp.NO_CHILD_TYPES:
            return []
        if frame_depth + 1 >= var_collector.max_var_depth:
            return []

        class VariableParent(vp.ParentNode):
            def add_child(self, child):
                var_collector.append_child(variable_id, child)
        return vp.find_children_for_parent(var_collector, VariableParent(), var_value, variable_type)
    vp.process_child_nodes = process_child_nodes
    import deep.processor.variable_set_processor as vsp
    vsp.process_child_nodes = process_child_nodes


def _mut_str_unguarded():
    from deep.processor.variable_set_processor import VariableSetProcessor
    VariableSetProcessor._VariableSetProcessor__to_string = staticmethod(lambda v: str(v))


def _mut_key_names_raw():
    import deep.processor.variable_processor as vp
    from deep.processor.bfs import Node, NodeValue

    def process_dict_breadth_first(parent_node, type_name, value, func=lambda x, y: y):
        return [Node(value=NodeValue(func(type_name, key), value[key], key), parent=parent_node) for key in list(value.keys())
                if key in value]
    vp.process_dict_breadth_first = process_dict_breadth_first


def _mut_shared_table():
    from deep.processor.context.snapshot_action import SnapshotActionContext
    from deep.processor.context.action_context import ActionContext
    orig_init = ActionContext.__init__

    def __init__(self, parent, action):
        orig_init(self, parent, action)
        self.var_cache = parent.var_cache
    ActionContext.__init__ = __init__
    import deep.processor.frame_collector as fc
    orig_collect = fc.FrameCollector.collect

    def collect(self, var_lookup, var_cache):
        shared = self._FrameCollector__source.trigger_context.vars
        return orig_collect(self, shared, var_cache)
    fc.FrameCollector.collect = collect


def _mut_no_action_guard():
    """Re-introduce one try/except around the whole action loop (a failing action ends the loop)."""
    import deep.processor.trigger_handler as th
    orig = th.TriggerContext.action_context

    def action_context(self, action):
        ctx = orig(self, action)
        if getattr(self, "_verif_failed", False):
            ctx.can_trigger = lambda: False
        real_process = ctx.process

        def process():
            try:
                return real_process()
            except BaseException:
                self._verif_failed = True
                raise
        ctx.process = process
        real_can = ctx.can_trigger

        def can_trigger():
            try:
                return real_can()
            except BaseException:
                self._verif_failed = True
                raise
        if not getattr(self, "_verif_failed", False):
            ctx.can_trigger = can_trigger
        return ctx
    th.TriggerContext.action_context = action_context


MUTANTS = {"no_action_guard": _mut_no_action_guard, "shared_table": _mut_shared_table, "dict_unguarded": _mut_dict_unguarded, "str_unguarded": _mut_str_unguarded, "key_names_raw": _mut_key_names_raw}

CONDITIONS = [
    dict(fn="siblings", cubes=["fk == %d and ntp == %d" % (k, n) for k in range(N_SIBLING_FAULTS) for n in (2, 3)],
         twins=["reach", "mutant:no_action_guard@fk == 0 and ntp == 2"],
         bounds="2-3 tracepoints on one line, the one at any position failing for a reason of its own (7 kinds: number format applied to text, malformed message, "
                "condition value without a text form, unusable MAX_VARIABLES / MAX_STRING_LENGTH, push failing for that snapshot, a failing metric expression)"),
    dict(fn="total", cubes={"quick": ["kind == %d and ntp == %d and conv == 1" % (k, 1 + (k % 3)) for k in range(43)] +
                                     ["kind == %d and ntp == %d and conv == 1" % (k, n) for k in (0, 8, 16, 19) for n in (1, 2, 3)],
                            "thorough": ["kind == %d and ntp == %d and conv == 1" % (k, n) for k in range(43) for n in (1, 2, 3)]},
         twins=["reach", "mutant:dict_unguarded@kind == 0 and ntp == 1 and conv == 1", "mutant:str_unguarded@kind == 17 and ntp == 1 and conv == 1",
                "mutant:key_names_raw@kind == 8 and ntp == 1 and conv == 1", "mutant:shared_table@kind == 0 and ntp == 2 and conv == 1"],
         bounds="43 offending-value kinds x 6 positions (local, list element, dict value, object attribute, watch-only, the local named `self`) x 6 exception classes for the hostile kinds; "
                "1-3 tracepoints on the line, the last with a watch (quick: one tracepoint count per kind, all three for 4 kinds; thorough: all); real protobuf conversion + serialisation of every snapshot"),
]
