"""C11 Tracepoint configuration is interpreted as documented, one tracepoint at a time."""
from typing import Optional

from vlib import world
from vlib.world import World, FakeFrame, plugins

PROPERTY = "C11"
FUNCTIONS = ["build_trigger", "build_snapshot_action", "build_log_action", "build_metric_action", "build_span_action",
             "Location.Position.from_stage", "convert_response", "__convert_metric_definition", "convert_label_expressions",
             "TracepointConfigService.add_custom/update_new_config", "TriggerHandler.trace_call (effects)"]
STUBS = ["FakeFrame", "RecPush", "recording logger/metric/span plugins", "inline task handler", "logging -> no-op",
         "real protobuf TracePointConfig/Metric messages as the service response"]
OUTSIDE = ["method-stage tracepoints without a method name are checked structurally only (driving them needs source lookup: C01)",
           "deferral semantics of *_end / *_capture stages (C15)"]

LINE_STAGES = ["line_start", "line_end", "line_capture"]
METHOD_STAGES = ["method_start", "method_end", "method_capture"]


def _ref_location(stage, method_name, span):
    """-> 'line' | 'method' | None (uninterpretable)."""
    st = "method_start" if method_name is not None else "line_start"
    if span is not None and span == "method":
        st = "method_start"
    if stage is not None:
        st = stage
    if st in LINE_STAGES:
        return "line"
    if st in METHOD_STAGES:
        return "method"
    return None


def _ref_actions(snapshot, span, log_msg, nm):
    """-> set of action kinds the arguments ask for."""
    kinds = []
    collect = not (snapshot is not None and snapshot == "no_collect")
    if collect:
        kinds.append("Snapshot")
    if log_msg is not None and not collect:
        kinds.append("Log")
    if nm > 0:
        kinds.append("Metric")
    if span is not None:
        kinds.append("Span")
    return kinds


_MNAMES = ["m0", "m0", "m2"]     # the second definition shares the first one's NAME (a counter and a gauge): still two definitions


def _metric_defs(nm):
    from deep.api.tracepoint.tracepoint_config import MetricDefinition
    return [MetricDefinition(_MNAMES[i], ["COUNTER", "GAUGE"][i % 2]) for i in range(nm)]


def table(stage: Optional[str], snapshot: Optional[str], span: Optional[str], method_name: Optional[str],
          log_msg: Optional[str], condition: Optional[str], nm: int) -> str:
    """
    build_trigger over FREE symbolic strings for every argument: location kind and the exact set of actions, each action
    carrying the tracepoint's id, condition, fire limits (defaults 1 / 1000) and watches.
    PRE: 0 <= nm <= 2
    PRE: stage is None or len(stage) <= 14
    PRE: snapshot is None or len(snapshot) <= 10
    PRE: span is None or len(span) <= 6
    PRE: method_name is None or len(method_name) <= 2
    PRE: log_msg is None or len(log_msg) <= 2
    PRE: condition is None or len(condition) <= 2
    POST: _ == ""
    """
    world.begin_path()
    from deep.api.tracepoint.trigger import build_trigger, LineLocation, FunctionLocation, Trigger
    nm = world.realize(nm)
    args = {}
    for k, v in (("stage", stage), ("snapshot", snapshot), ("span", span), ("method_name", method_name),
                 ("log_msg", log_msg), ("condition", condition)):
        if v is not None:
            args[k] = v
    watches = ["w1"]
    # history independence: an EARLIER tracepoint with explicit, non-default values for every argument is built first (one
    # poll response / process builds many); what is decided for tp1 depends on tp1's own arguments only
    build_trigger("tp0", "g.py", 3, {"fire_count": "7", "fire_period": "3", "snapshot": "collect", "span": "line", "log_msg": "earlier",
                                     "condition": "earlier_cond", "frame_type": "all_frame", "stack_type": "no_stack",
                                     "method_name": "earlier_fn", "stage": "method_start"}, ["w0"], _metric_defs(1))
    trig = build_trigger("tp1", "f.py", 7, args, watches, _metric_defs(nm))
    world.reached()
    loc = _ref_location(stage, method_name, span)
    if loc is None:
        if trig is not None:
            return "C11:table:uninterpretable-stage-produced-a-trigger"
        return ""
    if trig is None:
        return "C11:table:no-trigger-for-valid-arguments"
    inner = trig._Trigger__location
    if loc == "line":
        if not isinstance(inner, LineLocation) or inner.line != 7 or inner.path != "f.py":
            return "C11:table:wrong-location-kind(expected line)"
    else:
        if not isinstance(inner, FunctionLocation) or inner.path != "f.py":
            return "C11:table:wrong-location-kind(expected method)"
        if inner.name != method_name:
            return "C11:table:method-name-not-used"
    want = _ref_actions(snapshot, span, log_msg, nm)
    got = [a.action_type.name for a in trig.actions]
    if sorted(got) != sorted(want):
        return "C11:table:actions:" + ("missing" if len(got) < len(want) else "extra-or-wrong")
    for a in trig.actions:
        if a.id != "tp1":
            return "C11:table:action-id"
        if a.condition != condition:
            return "C11:table:action-condition"
        if a.fire_count != 1 or a.fire_period != 1000:
            return "C11:table:default-limits"
        k = a.action_type.name
        if k == "Snapshot":
            if a.config.get("watches") != watches:
                return "C11:table:snapshot-watches"
            if a.config.get("log_msg") != log_msg:
                return "C11:table:snapshot-log-msg"
            if a.config.get("frame_type") != "single_frame" or a.config.get("stack_type") != "stack":
                return "C11:table:snapshot-defaults"
        if k == "Log" and a.config.get("log_msg") != log_msg:
            return "C11:table:log-msg"
        if k == "Metric" and a.config.get("metrics") != _metric_defs(nm):
            return "C11:table:metric-definitions"
        if k == "Span" and a.config.get("span") != span:
            return "C11:table:span-arg"
    return ""


STAGES = [None, "line_start", "line_end", "line_capture", "method_start", "method_end", "method_capture", "bogus"]
SNAPS = [None, "collect", "no_collect"]
SPANS = [None, "line", "method"]


class InlineTasks:
    class F:
        def add_done_callback(self, cb):
            cb(self)

        def exception(self):
            return None

    def submit_task(self, task, *args):
        task(*args)
        return InlineTasks.F()


def _pb_tp(tp_id, path, line, args, nm, watches=()):
    from deepproto.proto.tracepoint.v1.tracepoint_pb2 import TracePointConfig, Metric, MetricType
    ms = [Metric(name=_MNAMES[i], type=[MetricType.COUNTER, MetricType.GAUGE][i % 2]) for i in range(nm)]
    return TracePointConfig(ID=tp_id, path=path, line_number=line, args=args, watches=list(watches), metrics=ms)


def _world():
    P = plugins()
    log = []
    w = World(plugin_list=[P["RecLogger"](log), P["RecMetricProcessor"](log), P["RecSpanProcessor"](log)])
    w.log = log
    w.tps.set_task_handler(InlineTasks())
    return w


def _args(si, ni, pi, mi, li):
    args = {"fire_period": "0"}
    if STAGES[si] is not None:
        args["stage"] = STAGES[si]
    if SNAPS[ni] is not None:
        args["snapshot"] = SNAPS[ni]
    if SPANS[pi] is not None:
        args["span"] = SPANS[pi]
    if mi:
        args["method_name"] = "f"
    if li:
        args["log_msg"] = "hello"
    return args


def _effects_of(w, tp_id):
    snaps = [s for s in w.push.snapshots if s.tracepoint.id == tp_id]
    logs = [e for e in w.log if e[0] == "log" and tp_id in (e[2], e[3])]
    mets = [e for e in w.log if e[0] in ("counter", "gauge", "histogram", "summary")]
    opens = [e for e in w.log if e[0] == "open" and e[3] == tp_id]
    return snaps, logs, mets, opens


def effects(si: int, ni: int, pi: int, mi: int, li: int, nm: int, route: int) -> str:
    """
    The tracepoint is installed (service response or register-in-code) and the matching event driven through the real
    handler: the observed effects (snapshot / log line / one metric call per definition / span) equal the table.
    PRE: 0 <= si <= 7 and 0 <= ni <= 2 and 0 <= pi <= 2 and 0 <= mi <= 1 and 0 <= li <= 1 and 0 <= nm <= 2 and 0 <= route <= 1
    POST: _ == ""
    """
    world.begin_path()
    from deep.grpc import convert_response
    w = _world()
    si, ni, pi, mi, li, nm, route = [world.realize(x) for x in (si, ni, pi, mi, li, nm, route)]
    args = _args(si, ni, pi, mi, li)
    stage, snapshot, span = STAGES[si], SNAPS[ni], SPANS[pi]
    method_name = "f" if mi else None
    loc = _ref_location(stage, method_name, span)
    tp_id = "tp1"
    try:
        if route == 0:
            w.tps.update_new_config(1, "h", convert_response([_pb_tp("tp1", "f.py", 7, args, nm, ["x"])]))
        else:
            w.tps.add_custom("f.py", 7, args, ["x"], _metric_defs(nm))
            tp_id = "tp-1"
    except Exception as e:
        world.reached()
        if loc is None and route == 1:
            # registering an uninterpretable tracepoint in code may be refused visibly; it must not stay behind
            if any(t is None for t in w.tps._custom):
                return "C11:effects:uninterpretable-registration-left-behind"
            return ""
        return "C11:effects:install-raised:" + type(e).__name__
    world.reached()
    if loc is None:
        if any(t is None for t in w.handler._tp_config):
            return "C11:effects:uninterpretable-tracepoint-installed-as-None"
        if len(w.handler._tp_config) != 0:
            return "C11:effects:uninterpretable-tracepoint-installed"
        return ""
    if loc == "method" and method_name is None:
        return ""  # structural only (see OUTSIDE)
    frame = FakeFrame("/app/f.py", "f", 7, {"x": 1})
    w.event(frame, "line" if loc == "line" else "call", None)
    want = _ref_actions(snapshot, span, "hello" if li else None, nm)
    snaps, logs, mets, opens = _effects_of(w, tp_id)
    deferred_ok = stage in ("line_end", "line_capture", "method_end", "method_capture")
    if "Snapshot" in want:
        if len(snaps) != 1 and not (deferred_ok and len(snaps) == 0 and w.handler._callbacks.is_set):
            return "C11:effects:snapshot-" + ("missing" if not snaps else "duplicated")
        if snaps and [wr.expression for wr in snaps[0].watches if wr.expression == "x"] != ["x"]:
            return "C11:effects:snapshot-watch-missing"
    elif snaps:
        return "C11:effects:snapshot-although-no_collect"
    if li:
        if len(logs) != 1 or logs[0][1] != "[deep] hello":
            return "C11:effects:log-line-" + ("missing" if not logs else "wrong")
        if "Snapshot" in want and snaps and snaps[0].log_msg != "[deep] hello":
            return "C11:effects:snapshot-log-msg"
    elif logs:
        return "C11:effects:log-without-log_msg"
    if len(mets) != nm or sorted(e[1] for e in mets) != sorted(_MNAMES[:nm]):
        return "C11:effects:metric-calls"
    for e in mets:
        if e[0] != ("counter" if e[1] == "m0" else "gauge"):
            return "C11:effects:metric-type"
    if span is not None:
        if len(opens) != 1:
            return "C11:effects:span-" + ("missing" if not opens else "duplicated")
        if opens[0][1] != ("f.py#7" if loc == "line" else "f"):
            return "C11:effects:span-name"
    elif opens:
        return "C11:effects:span-without-span-arg"
    return ""


def per_action_limits(fcv: int, xs: int, li: int, ni: int) -> str:
    """
    Each action of a tracepoint carries the tracepoint's own condition and fire count: with condition 'x == 1' and
    fire_count n, over 3 hits every action kind is performed min(n, #hits with x == 1) times.
    PRE: 0 <= fcv <= 3 and 0 <= xs <= 7 and 0 <= li <= 1 and 0 <= ni <= 1
    POST: _ == ""
    """
    world.begin_path()
    from deep.grpc import convert_response
    w = _world()
    fcv, xs, li, ni = [world.realize(x) for x in (fcv, xs, li, ni)]
    fc = ["1", "2", "-1", None][fcv]
    args = {"fire_period": "0", "condition": "x == 1", "span": "line"}
    if fc is not None:
        args["fire_count"] = fc
    if li:
        args["log_msg"] = "hello"
    if ni:
        args["snapshot"] = "no_collect"
    w.tps.update_new_config(1, "h", convert_response([_pb_tp("tp1", "f.py", 7, args, 1)]))
    hits = [(xs >> i) & 1 for i in range(3)]
    for i, x in enumerate(hits):
        w.clock.t = 10 + i
        w.event(FakeFrame("/app/f.py", "f", 7, {"x": x}), "line", None)
    world.reached()
    n_true = sum(hits)
    cap = {"1": 1, "2": 2, "-1": 99, None: 1}[fc]
    want = min(cap, n_true)
    snaps, logs, mets, opens = _effects_of(w, "tp1")
    if not ni and len(snaps) != want:
        return "C11:limits:snapshot-count"
    if ni and snaps:
        return "C11:limits:snapshot-although-no_collect"
    if li and len(logs) != want:
        return "C11:limits:log-count"
    if len(mets) != want:
        return "C11:limits:metric-count"
    if len(opens) != want:
        return "C11:limits:span-count"
    return ""


BKINDS = ["valid-same-location", "valid-other-line", "unknown-stage", "valid-method-f", "valid-method-g", "valid-method-f-again"]


def response(bk: int, ck: int, pos: int, route_b: int) -> str:
    """
    A response of three tracepoints: A is valid on f.py:7; B and C are valid on the same location / another line / a
    method, or uninterpretable (unknown stage). Every interpretable one is installed and acts; the uninterpretable one
    affects only itself.  B may instead be registered in code.
    PRE: 0 <= bk <= 5 and 0 <= ck <= 5 and 0 <= pos <= 2 and 0 <= route_b <= 1
    POST: _ == ""
    """
    world.begin_path()
    from deep.grpc import convert_response
    w = _world()
    bk, ck, pos, route_b = [world.realize(x) for x in (bk, ck, pos, route_b)]

    def mk(kind):
        a = {"fire_period": "0", "fire_count": "-1"}
        line = 7
        if kind == 1:
            line = 8
        elif kind == 2:
            a["stage"] = "bogus_stage"
        elif kind in (3, 5):
            a["method_name"] = "f"
        elif kind == 4:
            a["method_name"] = "g"
        return line, a
    specs = [("A", 0), ("B", bk), ("C", ck)]
    order = [[0, 1, 2], [1, 0, 2], [1, 2, 0]][pos]
    resp = []
    custom_kind = None
    for i in order:
        name, kind = specs[i]
        line, a = mk(kind)
        if name == "B" and route_b == 1:
            custom_kind = kind
            try:
                w.tps.add_custom("f.py", line, a, [], [])
            except Exception:
                pass
            continue
        resp.append(_pb_tp(name, "f.py", line, a, 0))
    try:
        w.tps.update_new_config(1, "h", convert_response(resp))
    except Exception as e:
        world.reached()
        return "C11:response:whole-response-lost:" + type(e).__name__
    world.reached()
    if any(t is None for t in w.handler._tp_config):
        return "C11:response:None-trigger-installed"
    # drive the interesting events one by one: each tracepoint acts at ITS location only
    events = [("call", "f", 1, (3, 5)), ("call", "g", 1, (4,)), ("line", "f", 7, (0,)), ("line", "f", 8, (1,))]
    for (ev, fn, line, kinds) in events:
        n0 = len(w.push.snapshots)
        try:
            w.event(FakeFrame("/app/f.py", fn, line, {}), ev, None)
        except Exception as e:
            return "C11:response:event-raised:" + type(e).__name__
        got = sorted(s.tracepoint.id for s in w.push.snapshots[n0:])
        want = sorted(("tp-1" if (name == "B" and route_b == 1) else name) for name, kind in specs if kind in kinds)
        if got != want:
            if [x for x in want if x not in got]:
                return "C11:response:valid-tracepoint-not-acting-at-its-location"
            return "C11:response:tracepoint-acting-at-another-tracepoint's-location"
    return ""


def _mut_log_ignores_no_collect():
    import deep.api.tracepoint.trigger as t
    from deep.api.tracepoint.trigger import LocationAction

    def build_log_action(tp_id, args):
        if "log_msg" not in args:
            return None
        condition = args["condition"] if "condition" in args else None
        return LocationAction(tp_id, condition, {"log_msg": args["log_msg"], "fire_count": args.get("fire_count", "1"),
                                                 "fire_period": args.get("fire_period", "1000")}, LocationAction.ActionType.Log)
    t.build_log_action = build_log_action


def _mut_span_method_ignored():
    import deep.api.tracepoint.trigger as t
    orig = t.build_trigger

    def build_trigger(tp_id, path, line_no, args, watches, metrics):
        if args.get("span") == "method" and "stage" not in args and "method_name" not in args:
            a = dict(args)
            a["stage"] = "line_start"
            return orig(tp_id, path, line_no, a, watches, metrics)
        return orig(tp_id, path, line_no, args, watches, metrics)
    t.build_trigger = build_trigger


def _mut_none_trigger_kept():
    import deep.grpc as g
    from deep.api.tracepoint.trigger import build_trigger

    def convert_response(response):
        all_triggers = {}
        for r in response:
            trigger = build_trigger(r.ID, r.path, r.line_number, dict(r.args), [w for w in r.watches], [])
            location_id = trigger.id
            if location_id in all_triggers:
                all_triggers[location_id].merge_actions(trigger.actions)
            else:
                all_triggers[location_id] = trigger
        return list(all_triggers.values())
    g.convert_response = convert_response


MUTANTS = {"log_ignores_no_collect": _mut_log_ignores_no_collect, "span_method_ignored": _mut_span_method_ignored,
           "none_trigger_kept": _mut_none_trigger_kept}

_PRES = ["stage is None", "stage is not None"]
_TAB_CUBES = ["(%s) and (%s) and (%s) and (%s) and nm == %d" % (a, b, c, d, n)
              for a in ("stage is None", "stage is not None") for b in ("snapshot is None", "snapshot is not None")
              for c in ("span is None", "span is not None") for d in ("method_name is None", "method_name is not None")
              for n in (0, 2)]
CONDITIONS = [
    dict(fn="table", cubes={"quick": _TAB_CUBES, "thorough": _TAB_CUBES + [c.replace("nm == 2", "nm == 1") for c in _TAB_CUBES if "nm == 2" in c]},
         twins=["reach", "mutant:log_ignores_no_collect@(stage is None) and (snapshot is None) and (span is None) and (method_name is None) and nm == 0",
                "mutant:span_method_ignored@(stage is None) and (snapshot is None) and (span is not None) and (method_name is None) and nm == 0"],
         bounds="stage/snapshot/span/method_name/log_msg/condition each absent or a FREE symbolic string (<= 14/10/6/2/2/2 chars); 0..2 metrics"),
    dict(fn="effects", cubes={"quick": ["si == %d and pi == %d and route == %d and nm <= 1" % (s, p, r) for s in range(8) for p in range(3) for r in range(2)],
                              "thorough": ["si == %d and pi == %d and route == %d and ni == %d" % (s, p, r, n) for s in range(8) for p in range(3) for r in range(2) for n in range(3)]},
         twins=["reach", "mutant:log_ignores_no_collect@si == 0 and pi == 0 and route == 0 and nm <= 1"],
         bounds="stage 8 values (incl. unknown) x snapshot 3 x span 3 x method_name 2 x log_msg 2 x metrics 0..1 (0..2 thorough) x 2 install routes; 1 matching event"),
    dict(fn="per_action_limits", cubes=["fcv == %d and li == %d and ni == %d" % (f, l, n) for f in range(4) for l in range(2) for n in range(2)],
         twins=["reach"], bounds="fire_count in {1,2,-1,absent}; 3 hits with every truth pattern of the condition; log/no_collect variants"),
    dict(fn="response", cubes=["bk == %d and ck == %d" % (b, c) for b in range(6) for c in range(6)],
         twins=["reach", "mutant:none_trigger_kept@bk == 2 and ck == 0"],
         bounds="3 tracepoints per response, B/C in {same location, other line, unknown stage, method f, method g, method f again}; each event decides on its own; 3 orders; B via service or code"),
]
