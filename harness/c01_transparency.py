"""C01 Host transparency: the agent never changes what the host program does."""
import sys

from vlib import world
from vlib.world import World, FakeFrame, plugins

PROPERTY = "C01"
FUNCTIONS = ["TriggerHandler.trace_call/__actions_for_location/__process_call_backs/location_from_event", "TriggerContext.*",
             "ActionContext.* and the four action contexts", "CallbackContext.*", "Trigger/LineLocation/FunctionLocation.at_location",
             "FrameCollector / VariableSetProcessor / variable_processor", "action results / callbacks", "ThreadLocal"]
STUBS = ["FakeFrame (the projection of a frame the agent reads)", "inspect.getsourcelines in deep.api.tracepoint.trigger -> raises OSError "
         "(documented behaviour for code without source) or returns lines", "recording plugins / push service, each wrapped by the fault injector",
         "fault injector: a counter over the agent's calls into its environment and sub-components; call number `fault_at` raises",
         "logging -> no-op (deep.logging and __str__ of agent config objects are not fault sites: they run inside except handlers)"]
OUTSIDE = ["stacks deeper than 2", "more than 3 consecutive events", "side-effecting expressions", "asynchronous exceptions between bytecodes",
           "process-global trace state (C14)", "reduction: by CPython's tracing contract a trace function affects the host only by raising, by its return value, "
           "or by mutating objects it can reach - these three are what is checked"]


class InjectedFault(Exception):
    pass


class InjectedBase(BaseException):
    pass


class Injector:
    """Counts boundary calls; call number `fault_at` raises. Installed by wrapping methods; removed by undo()."""

    def __init__(self):
        self.n = 0
        self.fault_at = -1
        self.base = False
        self.undo_list = []
        self.fired = False

    def tick(self, site):
        i = self.n
        self.n += 1
        if i == self.fault_at:
            self.fired = True
            if self.base:
                raise InjectedBase("injected at call %d (%s)" % (i, site))
            raise InjectedFault("injected at call %d (%s)" % (i, site))

    def wrap(self, owner, name, site=None):
        orig = owner.__dict__[name] if isinstance(owner, type) else getattr(owner, name)
        inj = self
        label = site or ("%s.%s" % (getattr(owner, "__name__", type(owner).__name__), name))
        if isinstance(orig, staticmethod):
            return

        def wrapper(*a, **k):
            inj.tick(label)
            return orig(*a, **k)
        setattr(owner, name, wrapper)
        self.undo_list.append((owner, name, orig))

    def undo(self):
        for owner, name, orig in reversed(self.undo_list):
            setattr(owner, name, orig)
        self.undo_list = []


def install_injector(inj, w):
    import deep.processor.context.trigger_context as tc
    from deep.processor.context.action_context import ActionContext
    from deep.processor.context.snapshot_action import SnapshotActionContext, DeferredSnapshotActionResult, SendSnapshotActionResult, \
        DeferredSnapshotActionCallback
    from deep.processor.context.log_action import LogActionContext, LogActionResult
    from deep.processor.context.metric_action import MetricActionContext
    from deep.processor.context.span_action import SpanActionContext, SpanResult, SpanActionCallback
    from deep.processor.context.callback_context import CallbackContext
    from deep.processor.frame_collector import FrameCollector
    from deep.api.tracepoint.trigger import Trigger, LocationAction
    from deep.processor.variable_set_processor import VariableSetProcessor
    inj.wrap(tc.TriggerContext, "__init__")
    inj.wrap(tc.TriggerContext, "action_context")
    inj.wrap(tc.TriggerContext, "evaluate_expression")
    inj.wrap(tc.TriggerContext, "attach_result")
    inj.wrap(tc.TriggerContext, "__exit__")
    inj.wrap(ActionContext, "can_trigger")
    inj.wrap(ActionContext, "process")
    inj.wrap(ActionContext, "__exit__")
    inj.wrap(ActionContext, "eval_watch")
    inj.wrap(LocationAction, "can_trigger")
    inj.wrap(LocationAction, "record_triggered")
    inj.wrap(SnapshotActionContext, "_process_action")
    inj.wrap(LogActionContext, "_process_action")
    inj.wrap(MetricActionContext, "_process_action")
    inj.wrap(SpanActionContext, "_process_action")
    inj.wrap(FrameCollector, "collect")
    inj.wrap(VariableSetProcessor, "process_variable")
    inj.wrap(DeferredSnapshotActionResult, "process")
    inj.wrap(SendSnapshotActionResult, "process")
    inj.wrap(LogActionResult, "process")
    inj.wrap(SpanResult, "process")
    inj.wrap(SpanActionCallback, "process")
    inj.wrap(DeferredSnapshotActionCallback, "process")
    inj.wrap(CallbackContext, "process")
    inj.wrap(CallbackContext, "at_location")
    inj.wrap(CallbackContext, "__init__")
    inj.wrap(Trigger, "at_location")
    inj.wrap(w.push, "push_snapshot", "push_service.push_snapshot")
    for p in w.config.plugins:
        for m in ("log_tracepoint", "create_span", "counter", "decorate"):
            if hasattr(p, m):
                inj.wrap(p, m, "plugin.%s" % m)
    orig_clock = tc.time_ns

    def clock():
        inj.tick("time_ns")
        return orig_clock()
    tc.time_ns = clock
    inj.undo_list.append((tc, "time_ns", orig_clock))


N_CFG = 10


def make_config(kind):
    """-> (triggers, script) where script = [(event, function, line, arg_kind)]."""
    from deep.api.tracepoint.trigger import build_trigger, LocationAction, FunctionLocation, Trigger, Location
    from deep.api.tracepoint.tracepoint_config import MetricDefinition
    lim = {"fire_count": "-1", "fire_period": "0"}
    line_script = [("line", "fn", 7, None), ("line", "fn", 8, None), ("return", "fn", 8, "ret")]
    call_script = [("call", "fn", 5, None), ("line", "fn", 7, None), ("exception", "fn", 7, "exc"), ("return", "fn", 7, "none")]
    if kind == 0:
        return [build_trigger("tp", "f.py", 7, dict(lim, condition="x == 1"), ["x", "y.z", "boom()"], [])], line_script
    if kind == 1:
        return [build_trigger("tp", "f.py", 7, dict(lim, snapshot="no_collect", log_msg="v={x} {boom()} {nope}"), [], [])], line_script
    if kind == 2:
        return [build_trigger("tp", "f.py", 7, dict(lim, snapshot="no_collect"), [],
                              [MetricDefinition("m", "COUNTER", [], "boom()"), MetricDefinition("m2", "GAUGE", [], "x")])], line_script
    if kind == 3:
        return [build_trigger("tp", "f.py", 7, dict(lim, snapshot="no_collect", span="line"), [], [])], line_script
    if kind == 4:
        return [build_trigger("tp", "f.py", 5, dict(lim, method_name="fn", span="method"), ["x"], [])], call_script
    if kind == 5:
        act = LocationAction("tp", None, {"fire_count": -1, "fire_period": 0, "stage": "method_capture", "watches": ["x"]},
                             LocationAction.ActionType.Snapshot)
        return [Trigger(FunctionLocation("f.py", "fn", Location.Position.CAPTURE), [act])], call_script
    if kind == 6:
        return [build_trigger("tp", "f.py", 6, dict(lim, stage="method_start"), [], [])], call_script
    if kind == 7:
        return [build_trigger("tp", "f.py", 6, dict(lim, span="method"), [], [])], call_script
    if kind == 8:
        t = build_trigger("tpA", "f.py", 7, dict(lim), ["x"], [])
        t.merge_actions(build_trigger("tpB", "f.py", 7, dict(lim, log_msg="{x}"), ["boom()"], []).actions)
        return [t], line_script
    return [build_trigger("tp", "f.py", 7, dict(lim, log_msg="m {x}", span="line"), ["x"], [MetricDefinition("m", "COUNTER")])], line_script


def _world(src_mode):
    import deep.api.tracepoint.trigger as trg
    P = plugins()
    log = []
    w = World(plugin_list=[P["RecLogger"](log), P["RecMetricProcessor"](log), P["RecSpanProcessor"](log), P["RecDecorator"]({"d": "1"})])
    w.log = log

    class FakeInspect:
        @staticmethod
        def getsourcelines(frame):
            if src_mode == 0:
                raise OSError("could not get source code")
            if src_mode == 1:
                return (["def fn():\n", "    pass\n"], 5)
            return (["x\n"] * 10, 1)
    w._real_inspect = trg.inspect
    trg.inspect = FakeInspect
    return w


def _restore(w):
    import deep.api.tracepoint.trigger as trg
    trg.inspect = w._real_inspect


def _fingerprint(d):
    out = []
    for k, v in d.items():
        out.append((k, id(v), type(v).__name__))
    return out


def _interpreter_state():
    """Interpreter-wide settings that belong to the application (the trace hooks are the agent's own business)."""
    import gc
    import os
    import warnings
    return (("gc.isenabled", gc.isenabled()), ("gc.threshold", gc.get_threshold()), ("recursionlimit", sys.getrecursionlimit()),
            ("switchinterval", sys.getswitchinterval()), ("sys.path", tuple(sys.path)), ("cwd", os.getcwd()),
            ("environ", tuple(sorted(os.environ.items()))), ("warnings.filters", len(warnings.filters)),
            ("stdout", id(sys.stdout)), ("stderr", id(sys.stderr)), ("excepthook", id(sys.excepthook)))


def _run_script(w, script, f_locals, ret_value, exc_value, host_gc_off=False):
    """Deliver the script; returns failure signature or ''."""
    import gc
    was = gc.isenabled()
    if host_gc_off:
        gc.disable()            # an application that manages collection itself (latency-sensitive services do)
    try:
        state = _interpreter_state()
        r = _run_script_inner(w, script, f_locals, ret_value, exc_value)
        if r:
            return r
        now = _interpreter_state()
        if now != state:
            changed = [k for (k, v), (_, v2) in zip(state, now) if v != v2]
            return "C01:interpreter-wide-setting-changed:" + changed[0]
        return ""
    finally:
        if was:
            gc.enable()
        else:
            gc.disable()


def _run_script_inner(w, script, f_locals, ret_value, exc_value):
    f_globals = {"hg": 1, "x": "module-level x", "limit": 100}     # note: `x` is also a local (shadowing)
    frame = FakeFrame("/app/f.py", "fn", 0, f_locals, f_globals, FakeFrame("/app/main.py", "main", 1, {"m": 1}))
    before = _fingerprint(f_locals)
    g_before = _fingerprint(f_globals)
    for (event, fn, line, argk) in script:
        frame.f_lineno = line
        arg = None
        if argk == "ret":
            arg = ret_value
        elif argk == "exc":
            arg = (ValueError, exc_value, None)
        try:
            r = w.handler.trace_call(frame, event, arg)
        except BaseException as e:  # noqa
            if world.is_engine_exc(e):
                raise
            return "C01:exception-raised-into-the-application:%s" % type(e).__name__
        world.cf_check()
        if r != w.handler.trace_call:
            return "C01:tracing-switched-off-for-the-frame"
        if _fingerprint(f_locals) != before:
            return "C01:application-locals-changed"
        if [e for e in _fingerprint(f_globals) if e[0] != "__builtins__"] != g_before:
            return "C01:application-module-globals-changed"
        if world.GLOBAL_RANDOM["draws"]:
            # the module-level functions of `random` share one generator with the application: a program that seeded it
            # gets different numbers with the agent attached
            return "C01:agent-drew-from-the-process-wide-random-generator(application's random sequence changed)"
    return ""


class Z:
    def __init__(self):
        self.z = 3


def _benign_locals():
    return {"x": 1, "y": Z(), "boom": (lambda: 1)}


def _after_check(w, triggers, expect_effects=True):
    """After the disturbed events: a fresh, benign program run over the same tracepoints still works normally."""
    w.log[:] = []
    n0 = len(w.push.snapshots)
    kinds = set(a.action_type.name for t in triggers for a in t.actions)
    script = [("call", "fn", 5, None), ("line", "fn", 7, None), ("line", "fn", 8, None), ("return", "fn", 8, "ret")]
    r = _run_script(w, script, _benign_locals(), "r", None)
    if r:
        return r + ":on-a-later-benign-run"
    from deep.thread_local import ThreadLocal
    st = ThreadLocal._ThreadLocal__store
    if any(len(v) > 0 for v in st.values()):
        return "C01:pending-callback-stack-poisoned"
    if not expect_effects:
        return ""
    if "Snapshot" in kinds and len(w.push.snapshots) == n0:
        return "C01:tracepoint-dead-after-the-failure(no snapshot on a later benign hit)"
    if "Log" in kinds and not [e for e in w.log if e[0] == "log"]:
        return "C01:tracepoint-dead-after-the-failure(no log)"
    if "Metric" in kinds and not [e for e in w.log if e[0] in ("counter", "gauge")]:
        return "C01:tracepoint-dead-after-the-failure(no metric)"
    if "Span" in kinds and not [e for e in w.log if e[0] == "open"]:
        return "C01:tracepoint-dead-after-the-failure(no span)"
    return ""


class Tracked:
    """A host object whose end of life is observable."""

    def __init__(self):
        self.payload = [1, 2, 3]


def _agent_containers(w):
    """Sizes of every mutable container held at class / module level in deep.* and on the handler: the places where
    something can outlive a trace event."""
    import sys
    import collections
    sizes = {}
    for name, mod in list(sys.modules.items()):
        if not (name == "deep" or name.startswith("deep.")) or mod is None:
            continue
        for attr, val in list(vars(mod).items()):
            if isinstance(val, (list, dict, set, collections.deque)) and not attr.startswith("__"):
                sizes["%s.%s" % (name, attr)] = len(val)
            if isinstance(val, type) and getattr(val, "__module__", "") == name:
                for a2, v2 in list(vars(val).items()):
                    if isinstance(v2, (list, dict, set, collections.deque)):
                        sizes["%s.%s.%s" % (name, attr, a2)] = len(v2)
    for a2, v2 in list(vars(w.handler).items()):
        if isinstance(v2, (list, dict, set, collections.deque)):
            sizes["handler.%s" % a2] = len(v2)
    return sizes


def lifetime(cfg: int, n: int) -> str:
    """
    The agent keeps nothing of the application between trace events: after the traced function has returned, no class-,
    module- or handler-level container of the agent has grown, however many times the script ran (so application
    objects seen in a paused frame are not kept alive by the agent). In the concrete replay a weakly referenced host
    object must also really die.
    PRE: 0 <= cfg <= 9 and 1 <= n <= 3
    POST: _ == ""
    """
    world.begin_path()
    cfg, n = world.realize(cfg), world.realize(n)
    w = _world(0)
    try:
        triggers, script = make_config(cfg)
        w.install(triggers)
        base = None
        for i in range(n):
            obj = Tracked()
            f_locals = {"x": 1, "y": Z(), "boom": (lambda: 1), "tracked": obj}
            r = _run_script(w, script, f_locals, "r", ValueError("e"), host_gc_off=(i % 2 == 1) or n == 1)
            if r:
                return r
            del obj, f_locals
            sizes = _agent_containers(w)
            if base is None:
                base = sizes
            elif sizes != base:
                world.reached()
                grown = sorted(k for k in sizes if sizes[k] != base.get(k))
                return "C01:agent-state-accumulates-between-events:" + (grown[0] if grown else "?")
        world.reached()
        if n == 1:
            # one run cannot show growth: compare with a second, identical run
            obj = Tracked()
            _run_script(w, script, {"x": 1, "y": Z(), "boom": (lambda: 1), "tracked": obj}, "r", ValueError("e"))
            del obj
            if _agent_containers(w) != base:
                return "C01:agent-state-accumulates-between-events"
        return ""
    finally:
        _restore(w)


def hostile(cfg: int, vk: int, ek: int, where: int, src: int) -> str:
    """
    Hostile application values (dunder methods raising Exception / BaseException subclasses, objects without __dict__,
    generators, non-str keys, invalid text, expressions that raise) in the locals, as the return value or as the raised
    exception, under 10 tracepoint configurations: nothing is raised into the application, tracing stays on, the
    application's data is untouched, and later benign hits still work.
    PRE: 0 <= cfg <= 9 and 0 <= vk <= 34 and 0 <= ek <= 5 and 0 <= where <= 2 and 0 <= src <= 2
    PRE: ek == 0 or vk in (16, 17, 18, 19, 20, 22)
    PRE: src == 0 or cfg in (6, 7)
    POST: _ == ""
    """
    world.begin_path()
    from harness.c06_total import offending
    cfg, vk, ek, where, src = [world.realize(x) for x in (cfg, vk, ek, where, src)]
    w = _world(src)
    try:
        triggers, script = make_config(cfg)
        w.install(triggers)
        value, _ = offending(vk, ek)
        exc_cls = [ValueError, KeyError, RuntimeError, KeyboardInterrupt, SystemExit, GeneratorExit][ek]

        def boom():
            raise exc_cls("boom")
        f_locals = {"x": 1, "y": Z(), "boom": boom}
        ret_value, exc_value = "r", ValueError("e")
        if where == 0:
            f_locals["bad"] = value
        elif where == 1:
            ret_value = value
        else:
            exc_value = ValueError("e", value)
        r = _run_script(w, script, f_locals, ret_value, exc_value)
        world.reached()
        if r:
            return r
        if vk == 12 and next(value) != 1:
            return "C01:application-generator-advanced"
        if vk == 29 and next(value) != 1:
            return "C01:application-iterator-advanced"
        return _after_check(w, triggers, cfg not in (6, 7))
    finally:
        _restore(w)


def measure(cfg):
    """Number of injector ticks in the fault-free run of configuration cfg (bounds fault_at)."""
    w = _world(0)
    inj = Injector()
    try:
        triggers, script = make_config(cfg)
        w.install(triggers)
        install_injector(inj, w)
        _run_script(w, script, _benign_locals(), "r", ValueError("e"))
        return inj.n
    finally:
        inj.undo()
        _restore(w)


N_TICKS = {}


def faults(cfg: int, fault_at: int, base: bool) -> str:
    """
    Fault injection: call number `fault_at` (SYMBOLIC) among the agent's calls into its sub-components and environment
    (context construction, trigger matching, limits, collection, expression evaluation, result processing, plugin
    callbacks, push, callback processing, clock) raises an Exception or a BaseException: nothing reaches the
    application, tracing stays on, data untouched, later benign hits still work.
    PRE: 0 <= cfg <= 9 and 0 <= fault_at <= 80
    POST: _ == ""
    """
    world.begin_path()
    cfg, base = world.realize(cfg), world.realize(base)
    w = _world(0)
    inj = Injector()
    try:
        triggers, script = make_config(cfg)
        w.install(triggers)
        install_injector(inj, w)
        inj.fault_at = fault_at
        inj.base = base
        f_locals = _benign_locals()
        r = _run_script(w, script, f_locals, "r", ValueError("e"))
        world.reached()
        inj.fault_at = -1
        if r:
            return r
        if not inj.fired:
            return ""       # fault_at beyond the run length of this configuration: nothing injected
        inj.undo()
        return _after_check(w, triggers, cfg not in (6, 7))
    finally:
        inj.undo()
        _restore(w)


def _mut_drop_action_guard():
    from deep.processor.trigger_handler import TriggerHandler
    from deep.processor.context.trigger_context import TriggerContext
    from deep.processor.context.callback_context import CallbackContext

    def trace_call(self, frame, event, arg):
        event, file, line, function = self.location_from_event(event, frame)
        trigger_context = TriggerContext(self._config, self._push_service, frame, event, arg)
        if len(self._tp_config) == 0:
            return None
        actions = self._TriggerHandler__actions_for_location(event, file, line, function, frame)
        if len(actions) == 0:
            return self.trace_call
        with trigger_context:
            for action in actions:
                with trigger_context.action_context(action) as ctx:
                    if ctx.can_trigger():
                        ctx.process()
        return self.trace_call
    TriggerHandler.trace_call = trace_call


def _mut_returns_none_on_error():
    from deep.processor.trigger_handler import TriggerHandler
    orig = TriggerHandler.trace_call

    def trace_call(self, frame, event, arg):
        r = orig(self, frame, event, arg)
        if frame.f_locals.get("bad") is not None:
            return None
        return r
    TriggerHandler.trace_call = trace_call


def _mut_global_random():
    """Snapshot ids drawn from the module-level functions of `random` again (the process-wide generator)."""
    import deep.api.tracepoint.eventsnapshot as es

    class Proxy:
        def getrandbits(self, n):
            return es.random.getrandbits(n)
    es._id_generator = Proxy()
    real = world.install_determinism

    def install(clock):
        r = real(clock)
        es._id_generator = Proxy()
        return r
    world.install_determinism = install


MUTANTS = {"global_random": _mut_global_random, "drop_action_guard": _mut_drop_action_guard, "returns_none_on_error": _mut_returns_none_on_error}

CONDITIONS = [
    dict(fn="lifetime", cubes=["cfg == %d" % c for c in range(10)], twins=["reach", "mutant:global_random@cfg == 0"],
         bounds="10 configurations x 1-3 runs of the event script; a weakly referenced host object in the locals must die once the application drops it"),
    dict(fn="hostile", cubes={"quick": ["cfg == %d and where == %d and src == 0 and vk in (0, 8, 12, 16, 17, 19, 20, 22, 29, 31, 33)" % (c, wh) for c in range(10) for wh in range(3)] +
                                       ["cfg == %d and src == %d and vk == 0 and where == 0" % (c, s) for c in (6, 7) for s in (1, 2)],
                              "thorough": ["cfg == %d and where == %d and src == 0 and vk %s" % (c, wh, r) for c in range(10) for wh in range(3) for r in ("<= 10", "in (11,12,13,14,15,16)", "in (17,18,19)", "in (20,21,22)", ">= 23")] +
                                          ["cfg == %d and src == %d and vk == 0 and where == 0" % (c, s) for c in (6, 7) for s in (1, 2)]},
         twins=["reach", "mutant:returns_none_on_error@cfg == 0 and where == 0 and src == 0 and vk in (0, 8, 12, 16, 17, 19, 20, 22, 29, 31, 33)"],
         timeout={"quick": 420, "thorough": 900},
         bounds="10 tracepoint configurations (snapshot+condition+watches, log, metric, line span, method span, method capture, unnamed method stage, span:method "
                "without name, two tracepoints on a line, all actions) x a script of 3-4 events x 10 (thorough 33) value kinds in the locals / as return value / as exception "
                "argument x 6 exception classes for hostile dunder methods and failing expressions; source lookup raising OSError or answering"),
    dict(fn="faults", cubes=["cfg == %d and %s" % (c, b) for c in range(10) for b in ("base", "not base")],
         twins=["reach", "mutant:drop_action_guard@cfg == 0 and not base"],
         timeout={"quick": 300, "thorough": 900},
         bounds="10 configurations x every call index (SYMBOLIC, <= 80; the solver partitions it over the calls actually made) x fault class Exception / BaseException"),
]
