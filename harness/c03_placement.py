"""C03 Trigger placement: actions fire at exactly the configured locations, each tracepoint independently."""
from vlib import world
from vlib.world import World, FakeFrame, plugins

PROPERTY = "C03"
FUNCTIONS = ["TriggerHandler.trace_call/location_from_event/__actions_for_location",
             "Trigger/LineLocation/FunctionLocation.at_location", "build_trigger", "convert_response",
             "TracepointConfigService.add_custom/update_listeners"]
STUBS = ["FakeFrame", "time_ns -> fixed", "RecPush", "recording logger/metric/span plugins", "logging -> no-op",
         "inline task handler (submit_task runs the task immediately)"]
OUTSIDE = ["frames whose local trace function CPython never calls", "method tracepoints without method_name (C01/C11)"]

EVENTS = ["line", "call", "return", "exception"]
FUNCS = ["f", "g"]
ALL_ARGS = {"log_msg": "m", "span": "line", "fire_count": "-1", "fire_period": "0"}


def _world():
    P = plugins()
    log = []
    w = World(plugin_list=[P["RecLogger"](log), P["RecMetricProcessor"](log), P["RecSpanProcessor"](log)])
    w.log = log
    return w


def _metrics():
    from deep.api.tracepoint.tracepoint_config import MetricDefinition
    return [MetricDefinition("m1", "COUNTER")]


def _effects(w):
    """(snapshot tracepoint ids, log entries) observed so far."""
    return [s.tracepoint.id for s in w.push.snapshots], list(w.log)


def _expect_effects(ids_matching):
    snaps = list(ids_matching)
    return snaps


def _check_effects(w, matching_ids, ctx=""):
    """Every matching tracepoint acted exactly once with all four action kinds; nothing else happened."""
    snaps, log = _effects(w)
    if sorted(snaps) != sorted(matching_ids):
        if len(snaps) > len(matching_ids):
            return "C03:spurious-or-duplicate-snapshot" + ctx
        return "C03:missing-snapshot" + ctx
    logs = sorted(e[2] for e in log if e[0] == "log")
    mets = [e for e in log if e[0] == "counter"]
    opens = sorted(e[3] for e in log if e[0] == "open")
    # LogActionResult passes (msg, ctx.id, action.id): position 2/3 hold the two ids in some order (C16 owns the order)
    logs2 = sorted(e[3] for e in log if e[0] == "log")
    if not (logs == sorted(matching_ids) or logs2 == sorted(matching_ids)):
        return "C03:log-action-count-or-id-wrong" + ctx
    if len(mets) != len(matching_ids):
        return "C03:metric-action-count-wrong" + ctx
    if opens != sorted(matching_ids):
        return "C03:span-action-count-or-id-wrong" + ctx
    return ""


def one_tp(tp_kind: int, tp_line: int, ev_line: int, ev_kind: int, rel: int, ev_func: int, tp_func: int) -> str:
    """
    One tracepoint (line or named method) with all four action kinds; one event. Acts iff the documented match holds.
    PRE: 0 <= tp_kind <= 1 and 0 <= ev_kind <= 3 and 0 <= rel <= 3 and 0 <= ev_func <= 1 and 0 <= tp_func <= 1
    PRE: 0 <= tp_line <= 2 and 0 <= ev_line <= 2
    POST: _ == ""
    """
    world.begin_path()
    from deep.api.tracepoint.trigger import build_trigger
    w = _world()
    tp_kind, ev_kind, rel, ev_func, tp_func = [world.realize(x) for x in (tp_kind, ev_kind, rel, ev_func, tp_func)]
    tp_line, ev_line = world.realize(tp_line), world.realize(ev_line)  # the span name formats the line (C boundary)
    args = dict(ALL_ARGS)
    if tp_kind == 1:
        args["method_name"] = FUNCS[tp_func]
    trig = build_trigger("tp1", "f.py", tp_line, args, [], _metrics())
    w.install([trig])
    evfile = ["/app/f.py", "/other/dir/f.py", "/app/g.py", "f.py"][rel]
    # the function may be a method / nested function: its qualified name differs from its name
    qual = [None, "Order." + FUNCS[ev_func], "make.<locals>." + FUNCS[ev_func]][(tp_line + ev_line) % 3]
    frame = FakeFrame(evfile, FUNCS[ev_func], ev_line, {"x": 1}, qualname=qual)
    ret = w.event(frame, EVENTS[ev_kind], None)
    world.reached()
    same_file = rel in (0, 1, 3)
    if tp_kind == 0:
        match = EVENTS[ev_kind] == "line" and same_file and ev_line == tp_line
    else:
        match = EVENTS[ev_kind] == "call" and same_file and ev_func == tp_func
    r = _check_effects(w, ["tp1"] if match else [])
    if r:
        return r
    if not match and w.handler._callbacks.is_set:
        return "C03:pending-callback-without-match"
    if ret != w.handler.trace_call:
        return "C03:tracing-not-continued"
    return ""


def line_unbounded(tp_line: int, ev_line: int, ev_kind: int, rel: int) -> str:
    """
    Snapshot-only line tracepoint, UNBOUNDED symbolic line numbers: acts iff event is 'line', same file name, lines equal.
    PRE: 0 <= ev_kind <= 3 and 0 <= rel <= 2
    POST: _ == ""
    """
    world.begin_path()
    from deep.api.tracepoint.trigger import build_trigger
    w = World()
    ev_kind, rel = world.realize(ev_kind), world.realize(rel)
    w.install([build_trigger("tp1", "f.py", tp_line, {"fire_count": "-1", "fire_period": "0"}, [], [])])
    evfile = ["/app/f.py", "/other/dir/f.py", "/app/g.py"][rel]
    w.event(FakeFrame(evfile, "f", ev_line, {"x": 1}), EVENTS[ev_kind], None)
    world.reached()
    match = EVENTS[ev_kind] == "line" and rel != 2 and ev_line == tp_line
    got = len(w.push.snapshots)
    if got != (1 if match else 0):
        return "C03:line-unbounded:" + ("spurious" if got else "missing")
    return ""


def sym_paths(tp_path: str, ev_file: str, tp_line: int, ev_line: int) -> str:
    """
    Free (symbolic) tracepoint path and event file name: a line tracepoint acts iff basename(event file) == path.
    PRE: len(tp_path) <= 3 and len(ev_file) <= 4
    POST: _ == ""
    """
    world.begin_path()
    from deep.api.tracepoint.trigger import build_trigger
    w = World()
    trig = build_trigger("tp1", tp_path, tp_line, {"fire_count": "-1", "fire_period": "0", "frame_type": "no_frame"}, [], [])
    w.install([trig])
    frame = FakeFrame(ev_file, "f", ev_line, {})
    w.event(frame, "line", None)
    world.reached()
    base = ev_file.rsplit("/", 1)[-1]
    match = (base == tp_path) and ev_line == tp_line
    got = len(w.push.snapshots)
    if got != (1 if match else 0):
        return "C03:sym-path:" + ("spurious" if got else "missing")
    return ""


def _pb_tp(tp_id, path, line, args, with_metric=True):
    from deepproto.proto.tracepoint.v1.tracepoint_pb2 import TracePointConfig, Metric, MetricType
    ms = [Metric(name="m1", type=MetricType.COUNTER)] if with_metric else []
    return TracePointConfig(ID=tp_id, path=path, line_number=line, args=args, watches=[], metrics=ms)


class InlineTasks:
    """Stand-in for TaskHandler: runs the task immediately in the calling thread (C12 owns scheduling)."""

    class F:
        def add_done_callback(self, cb):
            cb(self)

        def exception(self):
            return None

    def submit_task(self, task, *args):
        task(*args)
        return InlineTasks.F()


def multi_tp(l1: int, l2: int, l3: int, k1: int, k2: int, k3: int, route: int, ev_line: int, ev_kind: int,
             ev_func: int, n: int) -> str:
    """
    Up to three tracepoints (line or method f/g, possibly on the SAME location), delivered by the service
    (convert_response) and/or registered in code (add_custom); one event: exactly the matching ones act, once each.
    PRE: 0 <= l1 <= 1 and 0 <= l2 <= 1 and 0 <= l3 <= 1 and 0 <= ev_line <= 1
    PRE: 0 <= k1 <= 2 and 0 <= k2 <= 2 and 0 <= k3 <= 2
    PRE: 0 <= route <= 3 and 0 <= ev_kind <= 3 and 0 <= ev_func <= 1 and 2 <= n <= 3
    POST: _ == ""
    """
    world.begin_path()
    from deep.grpc import convert_response
    w = _world()
    vals = [world.realize(x) for x in (l1, l2, l3, k1, k2, k3, route, ev_line, ev_kind, ev_func, n)]
    l1, l2, l3, k1, k2, k3, route, ev_line, ev_kind, ev_func, n = vals
    w.tps.set_task_handler(InlineTasks())
    tps = []
    for i, (ln, k) in enumerate([(l1, k1), (l2, k2), (l3, k3)][:n]):
        args = dict(ALL_ARGS)
        if k > 0:
            args["method_name"] = FUNCS[k - 1]
        tps.append(("tp%d" % (i + 1), "f.py", ln, args, k))
    # route bit i set -> tracepoint i+1 is registered in code, otherwise sent by the service; tp3 always by service
    service = [t for i, t in enumerate(tps) if not (route >> i) & 1]
    custom = [t for i, t in enumerate(tps) if (route >> i) & 1]
    expected_ids = {}
    for t in custom:
        w.tps.add_custom(t[1], t[2], t[3], [], _metrics())
    resp = [_pb_tp(t[0], t[1], t[2], t[3]) for t in service]
    w.tps.update_new_config(1, "h1", convert_response(resp))
    # ids of custom tracepoints are generated by the agent: read them back from the installed triggers
    installed = w.handler._tp_config
    custom_ids = []
    for trig in installed:
        for a in trig.actions:
            if not a.id.startswith("tp") or "-" in a.id:
                if a.id not in custom_ids:
                    custom_ids.append(a.id)
    frame = FakeFrame("/app/f.py", FUNCS[ev_func], ev_line, {"x": 1})
    w.event(frame, EVENTS[ev_kind], None)
    world.reached()

    def matches(t):
        if t[4] == 0:
            return EVENTS[ev_kind] == "line" and t[2] == ev_line
        return EVENTS[ev_kind] == "call" and FUNCS[t[4] - 1] == FUNCS[ev_func]
    want = [t[0] for t in service if matches(t)]
    n_custom_match = sum(1 for t in custom if matches(t))
    snaps, log = _effects(w)
    got_service = sorted(s for s in snaps if s in [t[0] for t in tps])
    got_custom = [s for s in snaps if s not in [t[0] for t in tps]]
    if got_service != sorted(want):
        return "C03:multi:service-tracepoint-" + ("spurious" if len(got_service) > len(want) else "missing")
    if len(got_custom) != n_custom_match or len(set(got_custom)) != len(got_custom):
        return "C03:multi:registered-tracepoint-" + ("spurious" if len(got_custom) > n_custom_match else "missing")
    total = len(want) + n_custom_match
    if len([e for e in log if e[0] == "log"]) != total:
        return "C03:multi:log-count"
    if len([e for e in log if e[0] == "counter"]) != total:
        return "C03:multi:metric-count"
    if len([e for e in log if e[0] == "open"]) != total:
        return "C03:multi:span-count"
    return ""


def two_events(tp_kind: int, tp_line: int, e1_line: int, e2_line: int, e1_kind: int, e2_kind: int, e1_func: int,
               e2_func: int) -> str:
    """
    Two consecutive events against one snapshot-only tracepoint (unlimited): each event is decided on its own.
    PRE: 0 <= tp_kind <= 1 and 0 <= e1_kind <= 3 and 0 <= e2_kind <= 3 and 0 <= e1_func <= 1 and 0 <= e2_func <= 1
    POST: _ == ""
    """
    world.begin_path()
    from deep.api.tracepoint.trigger import build_trigger
    w = World()
    tp_kind, e1_kind, e2_kind, e1_func, e2_func = [world.realize(x) for x in (tp_kind, e1_kind, e2_kind, e1_func, e2_func)]
    args = {"fire_count": "-1", "fire_period": "0"}
    if tp_kind == 1:
        args["method_name"] = "f"
    w.install([build_trigger("tp1", "f.py", tp_line, args, [], [])])
    want = 0
    for (ek, el, ef) in ((e1_kind, e1_line, e1_func), (e2_kind, e2_line, e2_func)):
        w.event(FakeFrame("/app/f.py", FUNCS[ef], el, {"x": 1}), EVENTS[ek], None)
        if tp_kind == 0:
            want += 1 if (EVENTS[ek] == "line" and el == tp_line) else 0
        else:
            want += 1 if (EVENTS[ek] == "call" and ef == 0) else 0
    world.reached()
    if len(w.push.snapshots) != want:
        return "C03:two-events:" + ("spurious" if len(w.push.snapshots) > want else "missing")
    return ""


def pending_then_match(dk: int, gap: int, same_line: bool) -> str:
    """
    A tracepoint that leaves deferred work behind (a line span, a method span, a line / method capture) and a plain
    snapshot tracepoint on one of the NEXT lines of the same function: the event that completes the deferred work is still
    an event at its own location - the second tracepoint acts exactly once, on its line.
    PRE: 0 <= dk <= 3 and 1 <= gap <= 2
    POST: _ == ""
    """
    world.begin_path()
    from deep.api.tracepoint.trigger import build_trigger, LocationAction, LineLocation, FunctionLocation, Trigger, Location
    dk, gap, same_line = world.realize(dk), world.realize(gap), world.realize(same_line)
    w = _world()
    lim = {"fire_count": "-1", "fire_period": "0"}
    if dk == 0:
        d = build_trigger("tpD", "f.py", 2, dict(lim, span="line", snapshot="no_collect"), [], [])
    elif dk == 1:
        d = build_trigger("tpD", "f.py", 2, dict(lim, span="method", method_name="f", snapshot="no_collect"), [], [])
    else:
        cfg = {"fire_count": -1, "fire_period": 0, "watches": [], "stage": "line_capture" if dk == 2 else "method_capture"}
        act = LocationAction("tpD", None, cfg, LocationAction.ActionType.Snapshot)
        loc = LineLocation("f.py", 2, Location.Position.CAPTURE) if dk == 2 else FunctionLocation("f.py", "f", Location.Position.CAPTURE)
        d = Trigger(loc, [act])
    b_line = 2 if same_line else 2 + gap
    b = build_trigger("tpB", "f.py", b_line, dict(lim), [], [])
    w.install([d, b])
    frame = FakeFrame("/app/f.py", "f", 1, {"x": 1})
    at = {}
    for (ev, line, arg) in (("call", 1, None), ("line", 2, None), ("line", 3, None), ("line", 4, None), ("return", 4, "r")):
        frame.f_lineno = line
        before = len([s for s in w.push.snapshots if s.tracepoint.id == "tpB"])
        w.event(frame, ev, arg)
        n = len([s for s in w.push.snapshots if s.tracepoint.id == "tpB"]) - before
        if n:
            at[(ev, line)] = n
    world.reached()
    if at != {("line", b_line): 1}:
        if not at:
            return "C03:pending:tracepoint-on-a-later-line-did-not-act(event consumed by deferred work)"
        return "C03:pending:tracepoint-acted-at-the-wrong-event"
    if dk in (0, 1):
        opens = [e for e in w.log if e[0] == "open"]
        closes = [e for e in w.log if e[0] == "close"]
        if len(opens) != 1 or len(closes) != 1:
            return "C03:pending:deferred-span-not-completed-once"
    else:
        if len([s for s in w.push.snapshots if s.tracepoint.id == "tpD"]) != 1:
            return "C03:pending:deferred-capture-not-delivered-once"
    return ""


def _mut_line_ignores_event():
    from deep.api.tracepoint.trigger import LineLocation

    def at_location(self, event, file, line, function_name, frame):
        return file == self.path and line == self.line
    LineLocation.at_location = at_location


def _mut_func_ignores_file():
    from deep.api.tracepoint.trigger import FunctionLocation

    def at_location(self, event, file, line, function_name, frame):
        return event == "call" and function_name == self._FunctionLocation__function_name
    FunctionLocation.at_location = at_location


def _mut_merge_drops():
    from deep.api.tracepoint.trigger import Trigger

    def merge_actions(self, actions):
        pass
    Trigger.merge_actions = merge_actions


def _mut_callback_event_spent():
    """An event that completes deferred work is not matched against the tracepoints any more."""
    from deep.processor.trigger_handler import TriggerHandler
    orig = TriggerHandler._TriggerHandler__actions_for_location

    def actions_for_location(self, event, file, line, function, frame):
        if event in ("line", "return", "exception") and getattr(self, "_verif_had_callbacks", False):
            self._verif_had_callbacks = False
            return []
        return orig(self, event, file, line, function, frame)
    TriggerHandler._TriggerHandler__actions_for_location = actions_for_location
    orig_pc = TriggerHandler._TriggerHandler__process_call_backs

    def process_call_backs(self, *a, **k):
        try:
            pending = len(self._callbacks.value) > 0
        except Exception:
            pending = False
        self._verif_had_callbacks = pending
        return orig_pc(self, *a, **k)
    TriggerHandler._TriggerHandler__process_call_backs = process_call_backs


MUTANTS = {"callback_event_spent": _mut_callback_event_spent, "line_ignores_event": _mut_line_ignores_event, "func_ignores_file": _mut_func_ignores_file,
           "merge_drops": _mut_merge_drops}

CONDITIONS = [
    dict(fn="pending_then_match", cubes=["dk == %d" % k for k in range(4)], twins=["reach", "mutant:callback_event_spent@dk == 0"],
         bounds="a deferring tracepoint (line span, method span, line capture, method capture) at line 2 / method f and a snapshot tracepoint on the same line or 1-2 lines later; "
                "events call, line 2, line 3, line 4, return"),
    dict(fn="one_tp", cubes=["tp_kind == %d and ev_kind == %d and rel == %d" % (a, b, c) for a in range(2) for b in range(4) for c in range(4)],
         twins=["reach", "mutant:line_ignores_event@tp_kind == 0 and ev_kind == 2 and rel == 0",
                "mutant:func_ignores_file@tp_kind == 1 and ev_kind == 1 and rel == 2"],
         bounds="1 tracepoint (line | named method f/g) with snapshot+log+metric+span x 1 event (4 kinds, 4 file relations, 2 functions); lines 0..2"),
    dict(fn="line_unbounded", cubes=["ev_kind == %d" % i for i in range(4)], twins=["reach", "mutant:line_ignores_event@ev_kind == 2"],
         bounds="snapshot-only line tracepoint; tracepoint line and event line UNBOUNDED ints; 4 event kinds; 3 file relations"),
    dict(fn="sym_paths", cubes=["len(tp_path) == %d" % i for i in range(4)],
         twins=["reach"], bounds="tracepoint path: free string <= 3 chars; event file: free string <= 4 chars; lines unbounded"),
    dict(fn="multi_tp", cubes={"quick": ["n == 2 and route == %d and ev_kind == %d and k1 == %d and k2 == %d and l3 == 0 and k3 == 0" % (r, e, a, b)
                                         for r in range(4) for e in (0, 1) for a in range(3) for b in range(3)],
                               "thorough": ["n == 2 and route == %d and ev_kind == %d and k1 == %d and k2 == %d and l3 == 0 and k3 == 0" % (r, e, a, b)
                                            for r in range(4) for e in range(4) for a in range(3) for b in range(3)] +
                                           ["n == 3 and route == %d and ev_kind == %d and k1 == %d and k2 == %d and k3 == %d" % (r, e, a, b, c)
                                            for r in range(4) for e in (0, 1) for a in range(3) for b in range(3) for c in range(3)]},
         twins=["reach", "mutant:merge_drops@n == 2 and route == 0 and ev_kind == 0 and k1 == 0 and k2 == 0 and l3 == 0 and k3 == 0"],
         bounds="2 (3 thorough) tracepoints, lines 0..1, kinds line/method f/method g, any split between service response and add_custom; 1 event (line|call quick, all 4 thorough)"),
    dict(fn="two_events", cubes=["tp_kind == %d and e1_kind == %d and e2_kind == %d" % (i, a, b) for i in range(2) for a in range(4) for b in range(4)],
         twins=["reach"], bounds="1 tracepoint, 2 consecutive events (all kinds), lines unbounded"),
]
