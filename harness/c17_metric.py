"""C17 Metric tracepoints report each defined metric with the right type, labels, value."""
from vlib import world
from vlib.world import World, FakeFrame, plugins

PROPERTY = "C17"
FUNCTIONS = ["MetricActionContext.can_trigger/_process_action/_process_metric/_convert_type", "ActionContext.can_trigger/process/__exit__",
             "grpc.convert_response/__convert_metric_definition/convert_label_expressions/__convert_static_value",
             "ConfigService.has_metric_processor/metric_processors", "build_trigger/build_metric_action", "TriggerHandler.trace_call"]
STUBS = ["FakeFrame", "recording MetricProcessor plugins", "real protobuf TracePointConfig/Metric/LabelExpression messages",
         "inline task handler", "logging -> no-op"]
OUTSIDE = ["floating-point metric values (values are ints / bools; CrossHair reals are not IEEE)",
           "the label text for a FAILING label expression is not fixed by the property (error text or 'expression failed' accepted)"]

TYPES = ["COUNTER", "GAUGE", "HISTOGRAM", "SUMMARY"]
METHOD = {"COUNTER": "counter", "GAUGE": "gauge", "HISTOGRAM": "histogram", "SUMMARY": "summary"}


class InlineTasks:
    class F:
        def add_done_callback(self, cb):
            cb(self)

        def exception(self):
            return None

    def submit_task(self, task, *args):
        task(*args)
        return InlineTasks.F()


def _pb_metric(name, typ, expr=None, labels=(), meta=True):
    from deepproto.proto.tracepoint.v1.tracepoint_pb2 import Metric, MetricType, LabelExpression
    from deepproto.proto.common.v1.common_pb2 import AnyValue
    ls = []
    for (k, kind) in labels:
        if kind == 1:
            ls.append(LabelExpression(key=k, static=AnyValue(string_value="sv_" + k)))
        elif kind == 2:
            ls.append(LabelExpression(key=k, expression="name"))
        elif kind == 3:
            ls.append(LabelExpression(key=k, expression="nope"))
        elif kind == 4:
            ls.append(LabelExpression(key=k, static=AnyValue(int_value=7)))
    kw = dict(name=name, type=getattr(MetricType, typ), labelExpressions=ls)
    if expr is not None:
        kw["expression"] = expr
    if meta:
        kw.update(namespace="ns", help="h_" + name, unit="u_" + name)
    return Metric(**kw)


def _install(w, metrics, fc="-1"):
    from deepproto.proto.tracepoint.v1.tracepoint_pb2 import TracePointConfig
    from deep.grpc import convert_response
    w.tps.set_task_handler(InlineTasks())
    tp = TracePointConfig(ID="tp1", path="f.py", line_number=7,
                          args={"fire_count": fc, "fire_period": "0", "snapshot": "no_collect"}, watches=[], metrics=metrics)
    w.tps.update_new_config(1, "h", convert_response([tp]))


def _want_labels(labels):
    out = {}
    for (k, kind) in labels:
        if kind == 1:
            out[k] = "sv_" + k
        elif kind == 2:
            out[k] = "bob"
        elif kind == 3:
            out[k] = None  # unspecified text
        elif kind == 4:
            out[k] = 7
    return out


def _labels_ok(got, want):
    if sorted(got) != sorted(want):
        return False
    for k, v in want.items():
        if v is None:
            continue
        if got[k] != v:
            return False
    return True


def dispatch(t1: int, t2: int, nd: int, np: int, meta: int, hits: int) -> str:
    """
    1-2 definitions of any of the four types, 0-2 processors, 1-2 hits: per permitted hit and per processor exactly one call
    per definition, through the operation named by its type, with name / namespace (default 'deep') / help / unit.
    PRE: 0 <= t1 <= 3 and 0 <= t2 <= 3 and 1 <= nd <= 2 and 0 <= np <= 2 and 0 <= meta <= 1 and 1 <= hits <= 2
    PRE: nd == 2 or t2 == 0
    POST: _ == ""
    """
    world.begin_path()
    t1, t2, nd, np_, meta, hits = [world.realize(x) for x in (t1, t2, nd, np, meta, hits)]
    P = plugins()
    logs = [[] for _ in range(np_)]
    w = World(plugin_list=[P["RecMetricProcessor"](lg) for lg in logs])
    defs = [("m1", TYPES[t1]), ("m2", TYPES[t2])][:nd]
    _install(w, [_pb_metric(n, t, None, [("k", 1)], bool(meta)) for (n, t) in defs])
    for h in range(hits):
        w.clock.t = 10 + h
        w.event(FakeFrame("/app/f.py", "f", 7, {"name": "bob"}), "line", None)
    world.reached()
    for lg in logs:
        want = []
        for h in range(hits):
            for (n, t) in defs:
                want.append((METHOD[t], n))
        got = [(e[0], e[1]) for e in lg]
        if sorted(got) != sorted(want):
            if len(got) != len(want):
                return "C17:dispatch:call-count"
            return "C17:dispatch:wrong-operation-for-type"
        for e in lg:
            if e[2] != {"k": "sv_k"}:
                return "C17:dispatch:labels"
            if e[3] != ("ns" if meta else "deep"):
                return "C17:dispatch:namespace"
            if meta and (e[4] != "h_" + e[1] or e[5] != "u_" + e[1]):
                return "C17:dispatch:help-or-unit"
            if not meta and (e[4] not in ("", None) or e[5] not in ("", None)):
                return "C17:dispatch:help-or-unit-invented"
            if e[6] != 1:
                return "C17:dispatch:value-without-expression-not-1"
    return ""



def same_name(t1: int, t2: int, np: int) -> str:
    """
    Two definitions that share a NAME (a counter and a histogram called "orders", or the same type with different labels)
    are two metrics: both are reported, each through its own operation and with its own labels.
    PRE: 0 <= t1 <= 3 and 0 <= t2 <= 3 and 1 <= np <= 2
    POST: _ == ""
    """
    world.begin_path()
    t1, t2, np_ = world.realize(t1), world.realize(t2), world.realize(np)
    P = plugins()
    logs = [[] for _ in range(np_)]
    w = World(plugin_list=[P["RecMetricProcessor"](lg) for lg in logs])
    _install(w, [_pb_metric("orders", TYPES[t1], None, [("a", 1)], True), _pb_metric("orders", TYPES[t2], None, [("b", 1)], True)])
    w.event(FakeFrame("/app/f.py", "f", 7, {"name": "bob"}), "line", None)
    world.reached()
    for lg in logs:
        got = sorted((e[0], e[1], tuple(sorted(e[2]))) for e in lg)
        want = sorted([(METHOD[TYPES[t1]], "orders", ("a",)), (METHOD[TYPES[t2]], "orders", ("b",))])
        if got != want:
            return "C17:same-name:definition-%s" % ("lost" if len(got) < 2 else "altered")
    return ""


def once(np: int, nd: int, hits: int, lab: int) -> str:
    """
    The expressions of a metric (value, label) are evaluated ONCE per definition and hit, however many processors are
    active: with expressions that consume application state (`seq.pop(0)`, `tags.pop(0)`) every processor is told the
    same value and label, and the state is consumed once per definition per hit.
    PRE: 1 <= np <= 3 and 1 <= nd <= 2 and 1 <= hits <= 2 and 0 <= lab <= 1
    POST: _ == ""
    """
    world.begin_path()
    from deepproto.proto.tracepoint.v1.tracepoint_pb2 import Metric, MetricType, LabelExpression
    np_, nd, hits, lab = [world.realize(x) for x in (np, nd, hits, lab)]
    P = plugins()
    logs = [[] for _ in range(np_)]
    w = World(plugin_list=[P["RecMetricProcessor"](lg) for lg in logs])
    seq = [7, 11, 13, 17, 19, 23]
    tags = ["red", "green", "blue", "cyan", "teal", "pink"]
    defs = []
    for i in range(nd):
        ls = [LabelExpression(key="c", expression="tags.pop(0)")] if lab else []
        defs.append(Metric(name="m%d" % (i + 1), type=MetricType.GAUGE, expression="seq.pop(0)", labelExpressions=ls))
    _install(w, defs)
    f_locals = {"seq": seq, "tags": tags}
    for h in range(hits):
        w.clock.t = 10 + h
        w.event(FakeFrame("/app/f.py", "f", 7, f_locals), "line", None)
    world.reached()
    if len(seq) != 6 - nd * hits:
        return "C17:once:value-expression-evaluated-%s-than-once-per-definition-and-hit" % ("more" if len(seq) < 6 - nd * hits else "less")
    if len(tags) != 6 - (nd * hits if lab else 0):
        return "C17:once:label-expression-evaluated-more-than-once-per-definition-and-hit"
    first = [(e[1], e[2], e[6]) for e in logs[0]]
    for lg in logs[1:]:
        if [(e[1], e[2], e[6]) for e in lg] != first:
            return "C17:once:processors-told-different-values"
    vals = sorted(e[6] for e in logs[0])
    if vals != [float(x) for x in (7, 11, 13, 17)[:nd * hits]]:
        return "C17:once:values"
    return ""


VEXPR = [None, "v", "flag", "name", "nope", "v + 1", "1/0", "10 ** 400", "bad", "[1]"]


class BadFloat:
    def __float__(self):
        raise RuntimeError("no float")


def value(vk: int, v: int, flag: bool, t1: int) -> str:
    """
    The reported value: the metric's expression evaluated as a number (int local -2..2, bool local), or 1 when there
    is no expression, it is not numeric, or it fails.
    PRE: 0 <= vk <= 9 and 0 <= t1 <= 3 and -2 <= v <= 2
    POST: _ == ""
    """
    world.begin_path()
    vk, t1, v, flag = world.realize(vk), world.realize(t1), world.realize(v), world.realize(flag)
    P = plugins()
    lg = []
    w = World(plugin_list=[P["RecMetricProcessor"](lg)])
    # a second definition after it: a value that cannot be converted costs only its own value, not the later metrics
    _install(w, [_pb_metric("m1", TYPES[t1], VEXPR[vk], [("k", 1), ("n", 2)], True), _pb_metric("m2", "GAUGE", "v", [], True)])
    w.event(FakeFrame("/app/f.py", "f", 7, {"name": "bob", "v": v, "flag": flag, "bad": BadFloat()}), "line", None)
    world.reached()
    if len(lg) != 2 or lg[0][0] != METHOD[TYPES[t1]] or lg[1][:2] != ("gauge", "m2") or lg[1][6] != v:
        return "C17:value:call-missing"
    if lg[0][2] != {"k": "sv_k", "n": "bob"}:
        return "C17:value:labels-lost-or-altered(value expression %s)" % ("failing" if vk in (4, 6) else "present")
    got = lg[0][6]
    if vk == 1:
        want = float(v)
    elif vk == 5:
        want = float(v + 1)
    elif vk == 2:
        want = 1.0 if flag else 0.0
    else:
        want = 1
    if got != want:
        return "C17:value:wrong-value"
    return ""


def labels(l1: int, l2: int, t1: int) -> str:
    """
    Labels: static values as given, expressions evaluated in the frame; two labels with any mix (none/static str/expression/
    failing expression/static int).
    PRE: 0 <= l1 <= 4 and 0 <= l2 <= 4 and 0 <= t1 <= 3
    POST: _ == ""
    """
    world.begin_path()
    l1, l2, t1 = [world.realize(x) for x in (l1, l2, t1)]
    P = plugins()
    lg = []
    w = World(plugin_list=[P["RecMetricProcessor"](lg)])
    ls = [(k, kind) for (k, kind) in (("a", l1), ("b", l2)) if kind != 0]
    _install(w, [_pb_metric("m1", TYPES[t1], None, ls, True)])
    w.event(FakeFrame("/app/f.py", "f", 7, {"name": "bob"}), "line", None)
    world.reached()
    if len(lg) != 1:
        return "C17:labels:call-missing"
    if not _labels_ok(lg[0][2], _want_labels(ls)):
        return "C17:labels:wrong"
    return ""


def no_processor(fcv: int, n_before: int, t1: int) -> str:
    """
    With no metric processor active nothing is reported and no fire budget is used: after n hits without a processor, a
    processor is added and the next hits fire within the full budget.
    PRE: 0 <= fcv <= 1 and 0 <= n_before <= 2 and 0 <= t1 <= 3
    POST: _ == ""
    """
    world.begin_path()
    fcv, n_before, t1 = [world.realize(x) for x in (fcv, n_before, t1)]
    P = plugins()
    lg = []
    w = World(plugin_list=[])
    fc = ["1", "2"][fcv]
    _install(w, [_pb_metric("m1", TYPES[t1], None, [], True)], fc=fc)
    for h in range(n_before):
        w.clock.t = 10 + h
        w.event(FakeFrame("/app/f.py", "f", 7, {"name": "bob"}), "line", None)
    if lg:
        return "C17:no-processor:reported"
    w.config.plugins = [P["RecMetricProcessor"](lg)]
    for h in range(3):
        w.clock.t = 20 + h
        w.event(FakeFrame("/app/f.py", "f", 7, {"name": "bob"}), "line", None)
    world.reached()
    if len(lg) != int(fc):
        return "C17:no-processor:" + ("budget-used-without-processor" if len(lg) < int(fc) else "budget-exceeded")
    return ""


def _mut_always_counter():
    from deep.processor.context.metric_action import MetricActionContext
    MetricActionContext._convert_type = lambda self, t: "counter"


def _mut_value_const():
    from deep.processor.context.metric_action import MetricActionContext
    orig = MetricActionContext._process_metric

    def _process_metric(self, metric):
        labels, value = orig(self, metric)
        return labels, (value if value < 3 else 2)
    MetricActionContext._process_metric = _process_metric


def _mut_budget_without_processor():
    from deep.processor.context.metric_action import MetricActionContext
    from deep.processor.context.action_context import ActionContext

    def can_trigger(self):
        r = ActionContext.can_trigger(self)
        if not self.trigger_context.config.has_metric_processor:
            if r:
                self.location_action.record_triggered(self.trigger_context.ts)
            return False
        return r
    MetricActionContext.can_trigger = can_trigger


MUTANTS = {"always_counter": _mut_always_counter, "value_const": _mut_value_const,
           "budget_without_processor": _mut_budget_without_processor}

CONDITIONS = [
    dict(fn="dispatch", cubes=["t1 == %d and nd == %d and hits == %d" % (a, n, h) for a in range(4) for n in (1, 2) for h in (1, 2)],
         twins=["reach", "mutant:always_counter@t1 == 1 and nd == 1 and hits == 1"],
         bounds="1-2 definitions x 4 types each, 0-2 processors, metadata present/absent, 1-2 hits"),
    dict(fn="same_name", cubes=["t1 == %d" % a for a in range(4)], twins=["reach"],
         bounds="two definitions sharing one name: 4x4 type pairs, different labels, 1-2 processors"),
    dict(fn="once", cubes=["np == %d and nd == %d" % (a, b) for a in (1, 2, 3) for b in (1, 2)], twins=["reach"],
         bounds="1-3 processors x 1-2 definitions x 1-2 hits; value (and optionally a label) expression that consumes application state"),
    dict(fn="value", cubes=["vk == %d" % k for k in range(10)],
         twins=["reach", "mutant:value_const@vk == 5"],
         bounds="10 value-expression flavours (incl. a value too large for float, an object whose __float__ raises, a list) x 4 types; numeric local in -2..2 (symbolic floats compare through IEEE-precise models that enumerate; kept small), bool local"),
    dict(fn="labels", cubes=["l1 == %d" % k for k in range(5)], twins=["reach"],
         bounds="two labels each in {none, static str, expression, failing expression, static int} x 4 types"),
    dict(fn="no_processor", cubes=["fcv == %d" % k for k in range(2)], twins=["reach", "mutant:budget_without_processor@fcv == 0"],
         bounds="0..2 hits without a processor, then 3 hits with one; fire_count 1 or 2; 4 types"),
]
