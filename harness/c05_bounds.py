"""C05 Collection is bounded and spends its budget breadth-first."""
from vlib import world
from vlib.world import World, FakeFrame
from vlib import graphs, reader

PROPERTY = "C05"
FUNCTIONS = ["breadth_first_search", "Node.add_children", "VariableSetProcessor.process_variable/search_function/check_var_count",
             "variable_processor.process_variable/truncate_string/process_child_nodes/find_children_for_parent/"
             "process_list_breadth_first/process_dict_breadth_first", "FrameCollector.collect/_process_frame",
             "SnapshotActionContext.collection_config/_process_action", "ActionContext.eval_watch/process_capture_variable"]
STUBS = ["FakeFrame", "time_ns -> fixed (the per-tracepoint time budget never expires)", "RecPush", "logging -> no-op",
         "limits injected through LocationAction.config exactly as SnapshotActionContext.collection_config reads them "
         "(the build_*_action functions do not copy MAX_* arguments)"]
OUTSIDE = ["the processing-time budget (__time_exceeded) is pinned off", "graphs are instances of 9 shape templates with a size parameter, "
           "not arbitrary graphs", "depth is counted with the frame's own locals at depth 1"]


def _snapshot(f_locals, mv, ms, mc, md, watches=(), event="line", arg=None, log_msg=None):
    from deep.api.tracepoint.trigger import LocationAction, LineLocation, Trigger, Location
    w = World()
    cfg = {"fire_count": -1, "fire_period": 0, "watches": list(watches), "MAX_VARIABLES": mv, "MAX_STRING_LENGTH": ms,
           "MAX_COLLECTION_SIZE": mc, "MAX_VAR_DEPTH": md}
    if log_msg is not None:
        cfg["log_msg"] = log_msg
    act = LocationAction("tp1", None, cfg, LocationAction.ActionType.Snapshot)
    w.install([Trigger(LineLocation("f.py", 7, Location.Position.START), [act])])
    w.event(FakeFrame("/app/f.py", "fn", 7, f_locals), event, arg)
    return w.push.snapshots


def _check_bounds(s, f_locals, mv, ms, mc, md):
    """The four caps + truthful content, over the frame variables of snapshot s."""
    if len(s.var_lookup) > mv + 1:
        return "C05:variable-budget-exceeded"
    try:
        refs, seen = reader.walk_snapshot(s, s.frames[0].variables)
    except reader.Mismatch as e:
        return "C05:" + str(e)
    for (d, p, r) in refs:
        if d > md:
            return "C05:deeper-than-max-depth"
    for vid, v in s.var_lookup.items():
        if len(v.value) > ms:
            return "C05:string-longer-than-max"
    r = reader.check_frame_fidelity(s, 0, f_locals, ms, mc, md, require_all_locals=False)
    if r:
        return "C05:" + r
    return ""


def _check_level_order(s, f_locals, mv, mc, md):
    depths = reader.bfs_depths(f_locals, mc, md)          # id -> (depth, obj), caps applied
    recorded = set()
    for vid, v in s.var_lookup.items():
        recorded.add(int(v.hash))
    unknown = [h for h in recorded if h not in depths]
    if unknown:
        return "C05:recorded-object-outside-the-caps"
    if not recorded:
        dmax = 0
    else:
        dmax = max(depths[h][0] for h in recorded)
    for oid, (d, o) in depths.items():
        if d < dmax and oid not in recorded:
            return "C05:deeper-variable-recorded-before-a-shallower-one(not breadth-first)"
    total = len(depths)
    if mv >= total + 1 and len(recorded) != total:
        return "C05:variable-within-all-limits-not-collected"
    n_locals = len(set(id(v) for v in f_locals.values()))
    if md >= 2 and mv >= n_locals + 1:
        names = sorted(r.name for r in s.frames[0].variables)
        if names != sorted(f_locals.keys()):
            return "C05:frame-locals-crowded-out"
    return ""


def bounds(t: int, n: int, p: int, mv: int, ms: int, mc: int, md: int) -> str:
    """
    Frame variables of a snapshot for a graph template under SYMBOLIC limits: variable budget, string cut + truncated
    flag, per-collection cap, depth cap, and breadth-first spending of the budget (shallower variables win; the
    frame's own locals are never crowded out), in any declaration order.
    PRE: 0 <= t <= 8 and 0 <= n <= 4 and 0 <= p <= 5
    PRE: mv >= 0 and ms in (2, 100) and mc >= 0 and md >= 1
    POST: _ == ""
    """
    world.begin_path()
    t, n, p, ms = world.realize(t), world.realize(n), world.realize(p), world.realize(ms)
    f_locals = graphs.reorder(graphs.template(t, n), p)
    snaps = _snapshot(f_locals, mv, ms, mc, md)
    world.reached()
    if len(snaps) != 1:
        return "C05:no-snapshot"
    s = snaps[0]
    r = _check_bounds(s, f_locals, mv, ms, mc, md)
    if r:
        return r
    return _check_level_order(s, f_locals, mv, mc, md)


def strings(t: int, n: int, ms: int, mv: int) -> str:
    """
    String limit against whole graphs (every value text, incl. 'Size: n' and object reprs, is cut): ms 0..8 x budget.
    PRE: t in (0, 4, 8) and 0 <= n <= 4 and 0 <= ms <= 8 and mv >= 0
    POST: _ == ""
    """
    world.begin_path()
    t, n, ms = world.realize(t), world.realize(n), world.realize(ms)
    f_locals = graphs.template(t, n)
    snaps = _snapshot(f_locals, mv, ms, 10, 5)
    world.reached()
    if len(snaps) != 1:
        return "C05:no-snapshot"
    return _check_bounds(snaps[0], f_locals, mv, ms, 10, 5)


ALPHABETS = ["abcdefgh", "\x00" * 8, "a\x00\n\t\u00e9\U0001F600\\\x7f", "\x00b\x00\x00e\x00\x00\x00"]


def truncate(n: int, m: int, ai: int = 0) -> str:
    """
    String kernel over every length / limit pair: value == s[:max] and truncated == (len(s) > max) - whatever the
    characters are (NUL, control characters, backslashes, non-BMP): the limit counts characters of the value as stored.
    PRE: 0 <= n <= 8 and 0 <= m <= 8 and 0 <= ai <= 3
    POST: _ == ""
    """
    world.begin_path()
    n, ai = world.realize(n), world.realize(ai)
    text = ALPHABETS[ai][:n]
    snaps = _snapshot({"s": text}, 100, m, 10, 5)
    world.reached()
    if len(snaps) != 1 or len(snaps[0].frames[0].variables) != 1:
        return "C05:truncate:no-variable"
    v = snaps[0].var_lookup[snaps[0].frames[0].variables[0].vid]
    if v.value != text[:m]:
        return "C05:truncate:value"
    if bool(v.truncated) != (n > m):
        return "C05:truncate:flag"
    return ""


WATCHES = ["big", "[[1, 2, 3], 'abcdefgh', [4, [5, [6, [7]]]]]", "'x' * 8"]


def watch_limits(wi: int, kind: int, mv: int, ms: int, mc: int, md: int) -> str:
    """
    Watch results and log-field values land in the same snapshot and obey the same four limits.
    PRE: 0 <= wi <= 2 and 0 <= kind <= 1
    PRE: mv >= 0 and ms in (2, 100) and mc >= 0 and md >= 1
    PRE: kind == 0 or wi == 0
    POST: _ == ""
    """
    world.begin_path()
    wi, kind, ms = world.realize(wi), world.realize(kind), world.realize(ms)
    big = [[i, "s" * 8, [i, [i, [i]]]] for i in range(2)]
    f_locals = {"big": big, "z": 1}
    if kind == 0:
        snaps = _snapshot(f_locals, mv, ms, mc, md, watches=[WATCHES[wi]])
    else:       # the same value reached through a log field of a collecting tracepoint
        snaps = _snapshot({"z": 1, "holder": [big]}, mv, ms, mc, md, log_msg="v={holder[0]}")
    world.reached()
    if len(snaps) != 1:
        return "C05:watch:no-snapshot"
    s = snaps[0]
    if len(s.var_lookup) > mv + 1:
        return "C05:watch:variable-budget-exceeded"
    for vid, v in s.var_lookup.items():
        if len(v.value) > ms:
            return "C05:watch:string-longer-than-max"
        if v.type in ("list", "tuple", "set", "frozenset") and len(v.children) > mc:
            return "C05:watch:collection-cap-exceeded"
    for wr in s.watches:
        if wr.result is not None:
            try:
                refs, _ = reader.walk_snapshot(s, [wr.result])
            except reader.Mismatch as e:
                return "C05:watch:" + str(e)
            for (d, p, r) in refs:
                if d > md:
                    return "C05:watch:deeper-than-max-depth"
    return ""


def _mut_dfs_pop():
    import deep.processor.bfs as bfs
    import deep.processor.variable_set_processor as vsp

    def breadth_first_search(node, consumer):
        queue = [node]
        while len(queue) != 0:
            pop = queue.pop()
            if consumer(pop):
                queue += pop.children
            else:
                return
    bfs.breadth_first_search = breadth_first_search
    vsp.breadth_first_search = breadth_first_search


def _mut_count_plus2():
    from deep.processor.variable_set_processor import VariableSetProcessor

    def check_var_count(self):
        return not (self._VariableSetProcessor__var_cache.size > self._VariableSetProcessor__config.max_variables + 2)
    VariableSetProcessor.check_var_count = check_var_count


def _mut_trunc_flag_ge():
    import deep.processor.variable_processor as vp

    def truncate_string(string, max_length):
        return string[:max_length], len(string) >= max_length
    vp.truncate_string = truncate_string


def _mut_coll_cap_off_by_one():
    import deep.processor.variable_processor as vp
    from deep.processor.bfs import Node, NodeValue

    def process_list_breadth_first(var_collector, parent_node, value):
        nodes, total = [], 0
        for val_ in tuple(value):
            if total > var_collector.max_collection_size:
                break
            nodes.append(Node(value=NodeValue(str(total), val_), parent=parent_node))
            total += 1
        return nodes
    vp.process_list_breadth_first = process_list_breadth_first


def _mut_depth_off():
    import deep.processor.variable_processor as vp
    orig = vp.process_child_nodes

    def process_child_nodes(var_collector, variable_id, var_value, frame_depth):
        return orig(var_collector, variable_id, var_value, frame_depth - 2)
    vp.process_child_nodes = process_child_nodes
    import deep.processor.variable_set_processor as vsp
    vsp.process_child_nodes = process_child_nodes


def _mut_watch_default_limits():
    from deep.processor.context.action_context import ActionContext
    from deep.processor.variable_set_processor import VariableProcessorConfig
    ActionContext.variable_config = lambda self: VariableProcessorConfig()


MUTANTS = {"watch_default_limits": _mut_watch_default_limits, "dfs_pop": _mut_dfs_pop, "count_plus2": _mut_count_plus2, "trunc_flag_ge": _mut_trunc_flag_ge,
           "coll_cap_off_by_one": _mut_coll_cap_off_by_one, "depth_off": _mut_depth_off}

_MD = ["md == 1", "md == 2", "md == 3", "md >= 4"]
_QN = {0: 2, 1: 3, 2: 3, 3: 2, 4: 2, 5: 0, 6: 0, 7: 3, 8: 2}
CONDITIONS = [
    dict(fn="bounds", cubes={"quick": ["t == %d and n == %d and p == %d and ms == 100 and %s" % (t, _QN[t], p, m) for t in range(9) for p in (0, 1) for m in _MD],
                             "thorough": ["t == %d and n == %d and p == %d and ms == %d and %s" % (t, n, p, ms, m)
                                          for t in range(9) for n in ((0,) if t in (5, 6) else range(5)) for p in (0, 1, 3, 5) for ms in (2, 100) for m in _MD]},
         twins=["reach", "mutant:dfs_pop@t == 7 and n == 3 and p == 1 and ms == 100 and md >= 4", "mutant:count_plus2@t == 7 and n == 3 and p == 0 and ms == 100 and md >= 4",
                "mutant:coll_cap_off_by_one@t == 2 and n == 3 and p == 0 and ms == 100 and md >= 4", "mutant:depth_off@t == 1 and n == 3 and p == 0 and ms == 100 and md == 3"],
         timeout={"quick": 420, "thorough": 900},
         bounds="9 graph templates (flat, nested, wide list/tuple/set, dict of dicts, object with private attrs, shared, cyclic, big-first, mixed+exception) at one size "
                "(thorough: sizes 0..4) x 2 declaration orders (thorough 4); max_variables, max_collection_size, max_var_depth UNBOUNDED symbolic ints (the solver "
                "partitions them against the graph); max_string_length 100 (thorough also 2)"),
    dict(fn="strings", cubes=["t == %d and n == %d and ms %s" % (t, n, m) for t in (0, 4, 8) for n in (1, 3) for m in ("<= 4", ">= 5")],
         twins=["reach", "mutant:trunc_flag_ge@t == 0 and n == 3 and ms <= 4"],
         bounds="3 templates with strings x size 1,3 x max_string_length 0..8 x UNBOUNDED symbolic max_variables"),
    dict(fn="truncate", cubes=["n == %d" % n for n in range(9)], twins=["reach", "mutant:trunc_flag_ge@n == 3"],
         bounds="string length 0..8 x limit 0..8 x 4 alphabets (ASCII, NULs, control / non-BMP / backslash, mixed)"),
    dict(fn="watch_limits", cubes=["wi == %d and kind == 0 and %s" % (w, m) for w in range(3) for m in _MD] + ["wi == 0 and kind == 1 and %s" % m for m in _MD],
         twins=["reach", "mutant:watch_default_limits@wi == 0 and kind == 0 and md >= 4"],
         bounds="3 watch expressions (existing big local, fresh nested structure, long string) and a log field, under SYMBOLIC limits"),
]
