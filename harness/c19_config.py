"""C19 Configuration resolves with documented precedence and works from the environment."""
import os
from typing import Optional

from vlib import world

PROPERTY = "C19"
FUNCTIONS = ["ConfigService.__getattribute__/is_app_frame", "deep.config module (re-executed against the fake environment)",
             "deep.config.IN_APP_INCLUDE/IN_APP_EXCLUDE", "FrameCollector.parse_short_name", "LongPoll.start (timer construction)",
             "RepeatedTimer.__init__/_time", "GRPCService.__init__/start", "AuthProvider.get_provider", "deep.start (APP_ROOT from env)"]
STUBS = ["os.getenv in deep.config / deep.config.config_service / deep replaced by a dict-backed fake",
         "grpc module in deep.grpc.grpc_service -> recording fake (secure/insecure + target)",
         "RepeatedTimer thread never started (only constructed, _time evaluated)", "time module in deep.utils -> scripted clock", "Deep class in deep.start -> recorder",
         "sys.exec_prefix as on this interpreter", "logging -> no-op"]
OUTSIDE = ["deep.start's inspect.stack() derivation of APP_ROOT when neither code nor DEEP_APP_ROOT give it"]


class FakeOs:
    def __init__(self, env):
        self.environ = env
        import os
        self.path = os.path

    def getenv(self, k, d=None):
        return self.environ.get(k, d)


class _Env:
    """Context: deep.config re-executed against `env`, ConfigService's os.getenv pointed at it; restored on exit."""

    def __init__(self, env):
        self.env = env

    def __enter__(self):
        import deep.config as dc
        import deep.config.config_service as cs
        import inspect
        self.dc, self.cs = dc, cs
        self.saved = dict(dc.__dict__)
        self.saved_os = cs.os
        fo = FakeOs(self.env)
        src = inspect.getsource(dc)
        ns = {"__name__": "deep.config", "__package__": "deep.config", "__builtins__": __builtins__}
        code = compile(src, dc.__file__, "exec")
        exec(code, ns)
        # the module did `import os` itself: point the names it uses at the fake and re-evaluate the env-backed defaults
        ns["os"] = fo
        for line in src.splitlines():
            if line and line.split(" = ")[0].isupper() and "os.getenv" in line:
                exec(line, ns)
        for k, v in ns.items():
            if k.isupper():
                setattr(dc, k, v)
        cs.os = fo
        return self

    def __exit__(self, *a):
        for k in list(self.dc.__dict__):
            if k.isupper():
                if k in self.saved:
                    setattr(self.dc, k, self.saved[k])
                else:
                    delattr(self.dc, k)
        self.cs.os = self.saved_os
        return False


class _Settings:
    def __init__(self, v):
        self.v = v

    def value(self):
        return self.v

    def __call__(self):
        return self.v


KEYS = ["SERVICE_URL", "POLL_TIMER", "IN_APP_INCLUDE", "LOGGING_CONF", "MY_KEY", "SERVICE_USERNAME"]
MODULE_HAS = {"SERVICE_URL": True, "POLL_TIMER": True, "IN_APP_INCLUDE": True, "LOGGING_CONF": True, "MY_KEY": False,
              "SERVICE_USERNAME": False}


def lookup(ki: int, ck: int, has_env: bool) -> str:
    """
    Lookup chain for documented and unknown keys: a value given in code (incl. 0, '' and callables, which are called)
    wins; else the deep.config default (env-backed, callables called); else DEEP_<KEY> from the environment; else None.
    (Values are concrete: the lookup applies callable() to them, a C boundary at which the engine would enumerate strings.)
    PRE: 0 <= ki <= 5 and 0 <= ck <= 9
    POST: _ == ""
    """
    world.begin_path()
    cv, ev = "code-value", "env,value"
    from deep.config.config_service import ConfigService
    from deep.config.tracepoint_config import TracepointConfigService
    ki, ck, has_env = world.realize(ki), world.realize(ck), world.realize(has_env)
    key = KEYS[ki]
    env = {}
    if has_env:
        env["DEEP_" + key] = ev
    custom = {}
    sentinel = object()
    want_code = sentinel
    if ck == 1:
        custom[key] = cv
        want_code = cv
    elif ck == 2:
        custom[key] = 0
        want_code = 0
    elif ck == 3:
        custom[key] = ""
        want_code = ""
    elif ck == 4:
        custom[key] = None          # explicit None in code means "not given"
    elif ck == 5:
        custom[key] = lambda: cv
        want_code = cv
    elif ck == 6:
        import functools
        custom[key] = functools.partial(str.upper, cv)      # "callables, which are called": not only plain functions
        want_code = cv.upper()
    elif ck == 7:
        custom[key] = _Settings(cv).value                   # a bound method
        want_code = cv
    elif ck == 8:
        custom[key] = _Settings(cv)                         # an object with __call__
        want_code = cv
    elif ck == 9:
        custom[key] = os.getcwd                             # a built-in function
        want_code = os.getcwd()
    with _Env(env):
        import deep.config as dc
        cfg = ConfigService(custom, tracepoints=TracepointConfigService())
        got = ConfigService.__getattribute__(cfg, key)
        world.reached()
        if want_code is not sentinel:
            want = want_code
        elif MODULE_HAS[key]:
            m = getattr(dc, key)
            want = m() if callable(m) else m
        elif has_env:
            want = ev
        else:
            want = None
        if MODULE_HAS[key] and want_code is sentinel and key in ("SERVICE_URL", "LOGGING_CONF") and has_env and got != ev:
            return "C19:lookup:env-backed-default-ignores-environment"
    if type(got) is not type(want) or got != want:
        if want_code is not sentinel:
            return "C19:lookup:code-value-does-not-win"
        return "C19:lookup:wrong-fallback"
    return ""


def _ref_app_frame(filename, includes, excludes, root):
    for p in excludes:
        if filename.startswith(p):
            return False, p
    for p in includes:
        if filename.startswith(p):
            return True, p
    if filename.startswith(root):
        return True, root
    return False, None


ROOTS = ['', 'a', 'ab', 'b/']


def app_frame(filename: str, i1: str, i2: str, e1: str, e2: str, ri: int, ni: int, ne: int) -> str:
    """
    Application-frame classification and short path over FREE symbolic strings: excluded first (exclusion wins), then
    include prefixes, then the application root; short path = file name with the matched prefix removed.
    PRE: len(filename) <= 4 and len(i1) <= 2 and len(i2) <= 1 and len(e1) <= 2 and len(e2) <= 1 and 0 <= ri <= 3
    PRE: 0 <= ni <= 2 and 0 <= ne <= 2
    PRE: ni == 2 or i2 == ""
    PRE: ne == 2 or e2 == ""
    PRE: ni >= 1 or i1 == ""
    PRE: ne >= 1 or e1 == ""
    POST: _ == ""
    """
    world.begin_path()
    from deep.config.config_service import ConfigService
    from deep.config.tracepoint_config import TracepointConfigService
    from deep.processor.frame_collector import FrameCollector
    ni, ne = world.realize(ni), world.realize(ne)
    root = ROOTS[world.realize(ri)]   # concrete: ConfigService applies callable() to it (C boundary)
    inc, exc = [i1, i2][:ni], [e1, e2][:ne]
    cfg = ConfigService({"IN_APP_INCLUDE": inc, "IN_APP_EXCLUDE": exc, "APP_ROOT": root},
                        tracepoints=TracepointConfigService())

    class Src:
        def is_app_frame(self, fn):
            return cfg.is_app_frame(fn)
    # another configuration object in the same process (a second Deep instance, a test fixture, a reconfiguration) is asked
    # about the same file first: the answer depends on the configuration that is asked, not on who asked before
    other = ConfigService({"IN_APP_INCLUDE": [], "IN_APP_EXCLUDE": [], "APP_ROOT": "/zz"}, tracepoints=TracepointConfigService())
    other.is_app_frame(filename)
    got_app, got_match = cfg.is_app_frame(filename)
    short, app2 = FrameCollector(Src(), None).parse_short_name(filename)
    world.reached()
    want_app, want_match = _ref_app_frame(filename, inc, exc, root)
    if got_app != want_app:
        if want_app is False and got_app:
            return "C19:app-frame:exclusion-does-not-win-or-spurious-include"
        return "C19:app-frame:app-file-not-recognised"
    if app2 != want_app:
        return "C19:app-frame:collector-flag-differs"
    want_short = filename if want_match is None else filename[len(want_match):]
    if short != want_short:
        return "C19:app-frame:short-path"
    return ""


class _FakeGrpcMod:
    def __init__(self):
        self.calls = []

    def secure_channel(self, target, creds):
        self.calls.append(("secure", target))
        return "chan"

    def insecure_channel(self, target):
        self.calls.append(("insecure", target))
        return "chan"

    def ssl_channel_credentials(self):
        return "creds"


PROBE_FILES = ["/a/x.py", "/b/y.py", "/c/z.py", "/app/m.py", "a/rel.py", ",/odd.py"]
EQ_CASES = [
    ("POLL_TIMER", "5", 5), ("POLL_TIMER", "10", 10), ("POLL_TIMER", "1", 1), ("POLL_TIMER", "2.5", 2.5),
    ("SERVICE_SECURE", "True", True), ("SERVICE_SECURE", "False", False), ("SERVICE_SECURE", "false", "false"),
    ("SERVICE_SECURE", "1", "1"), ("SERVICE_SECURE", "0", "0"),
    ("SERVICE_URL", "host:1", "host:1"), ("SERVICE_URL", "", ""),
    ("IN_APP_INCLUDE", "/a", "/a"), ("IN_APP_INCLUDE", "/a,/b", "/a,/b"), ("IN_APP_INCLUDE", "/c", "/c"),
    ("IN_APP_EXCLUDE", "/a", "/a"), ("IN_APP_EXCLUDE", "/a,/b", "/a,/b"), ("IN_APP_EXCLUDE", "/app", "/app"),
    ("LOGGING_CONF", "/tmp/l.conf", "/tmp/l.conf"),
    ("SERVICE_AUTH_PROVIDER", "deep.api.auth.BasicAuthProvider", "deep.api.auth.BasicAuthProvider"),
    ("APP_ROOT", "/app", "/app"), ("APP_ROOT", "/b", "/b"),
    ("APP_ROOT+ENV", "/b", "/b"),        # given in code AND a different DEEP_APP_ROOT in the environment: code wins
    ("SERVICE_URL+ENV", "code:1", "code:1"), ("POLL_TIMER+ENV", "7", 7),
    # the list settings written the way people write lists (blank after the comma, trailing comma, leading blank): whatever
    # the agent makes of them, it makes the same of them in code and in the environment
    ("IN_APP_INCLUDE", "/a, /b", "/a, /b"), ("IN_APP_INCLUDE", "/c,", "/c,"), ("IN_APP_EXCLUDE", " /a,/b", " /a,/b"),
]


def _behaviour(key, cfg):
    """Observable behaviour of the setting `key` under config `cfg` (a comparable value)."""
    if key == "POLL_TIMER":
        import deep.poll.poll as pp
        import deep.utils as du
        from deep.poll.poll import LongPoll
        made = []

        class FakeTime:
            now = 1000.25

            @staticmethod
            def time():
                FakeTime.now += 0.5
                return FakeTime.now
        real_time = du.time
        du.time = FakeTime
        real = pp.RepeatedTimer

        class T(real):
            def start(self):
                made.append(self)
        pp.RepeatedTimer = T
        try:
            lp = LongPoll(cfg, None)
            lp._LongPoll__initial_poll = lambda: None
            lp.start()
            t = made[0]
            try:
                wait = t._time
            except Exception as e:
                return ("timer-wait-raises", type(e).__name__)
        finally:
            pp.RepeatedTimer = real
            du.time = real_time
        if not isinstance(wait, (int, float)) or not (0 < wait <= float(t.interval) + 1e-9):
            return ("timer-wait-out-of-range",)
        return ("interval", float(t.interval))
    if key in ("SERVICE_SECURE", "SERVICE_URL"):
        import deep.grpc.grpc_service as gs
        fake = _FakeGrpcMod()
        real = gs.grpc
        gs.grpc = fake
        try:
            svc = gs.GRPCService(cfg)
            try:
                svc.start()
            except Exception as e:
                return ("grpc-start-raises", type(e).__name__)
        finally:
            gs.grpc = real
        return tuple(fake.calls)
    if key in ("IN_APP_INCLUDE", "IN_APP_EXCLUDE"):
        out = []
        for f in PROBE_FILES:
            try:
                out.append(cfg.is_app_frame(f))
            except Exception as e:
                out.append(("raises", type(e).__name__))
        return tuple(out)
    if key == "LOGGING_CONF":
        return cfg.LOGGING_CONF
    if key == "SERVICE_AUTH_PROVIDER":
        from deep.api.auth import AuthProvider
        p = AuthProvider.get_provider(cfg)
        return type(p).__name__
    if key == "APP_ROOT":
        return tuple(cfg.is_app_frame(f) for f in PROBE_FILES)
    return None


def _reference(key, text):
    """What the documentation says the setting means (independent of the implementation)."""
    import sys
    if key == "POLL_TIMER":
        return ("interval", float(text))
    if key == "SERVICE_SECURE":
        return (("secure" if text.lower() in ("yes", "true", "t", "1", "y") else "insecure", "deep:43315"),)
    if key == "SERVICE_URL":
        return (("secure", text),)
    if key in ("IN_APP_INCLUDE", "IN_APP_EXCLUDE"):
        parts = text.split(",")
        inc = parts if key == "IN_APP_INCLUDE" else []
        exc = (parts if key == "IN_APP_EXCLUDE" else []) + [sys.exec_prefix]
        return tuple(_ref_app_frame(f, inc, exc, "/app") for f in PROBE_FILES)
    if key == "LOGGING_CONF":
        return text
    if key == "SERVICE_AUTH_PROVIDER":
        return text.rsplit(".", 1)[1]
    if key == "APP_ROOT":
        return tuple(_ref_app_frame(f, [], [sys.exec_prefix], text) for f in PROBE_FILES)
    return None


def equivalence(ci: int) -> str:
    """
    Every documented setting behaves as documented, identically whether given in code or as its DEEP_ environment
    variable (text): poll interval usable by the timer, channel choice, prefix lists, auth provider, app root.
    PRE: 0 <= ci <= 26
    POST: _ == ""
    """
    world.begin_path()
    from deep.config.config_service import ConfigService
    from deep.config.tracepoint_config import TracepointConfigService
    ci = world.realize(ci)
    key, text, code_value = EQ_CASES[ci]
    if key.endswith("+ENV"):
        return _both(key[:-4], text, code_value)
    base = {} if key == "APP_ROOT" else {"APP_ROOT": "/app"}
    # ---- via environment
    if key == "APP_ROOT":
        import deep as dp
        got = []

        class FakeDeep:
            def __init__(self, cfg):
                got.append(cfg)

            def start(self):
                pass
        real_deep, real_os, real_init = dp.Deep, dp.os, dp.logging.init
        dp.Deep, dp.os, dp.logging.init = FakeDeep, FakeOs({"DEEP_APP_ROOT": text}), (lambda cfg=None: None)
        try:
            with _Env({"DEEP_APP_ROOT": text}):
                dp.start({})
                b_env = _behaviour(key, got[0])
        finally:
            dp.Deep, dp.os, dp.logging.init = real_deep, real_os, real_init
    else:
        with _Env({"DEEP_" + key: text}):
            b_env = _behaviour(key, ConfigService(dict(base), tracepoints=TracepointConfigService()))
    # ---- via code
    with _Env({}):
        c = dict(base)
        c[key] = code_value
        b_code = _behaviour(key, ConfigService(c, tracepoints=TracepointConfigService()))
    world.reached()
    want = _reference(key, text)
    if b_env != want:
        return "C19:equivalence:%s-from-environment-misbehaves" % key
    if b_code != want:
        return "C19:equivalence:%s-from-code-misbehaves" % key
    return ""


def _both(key, text, code_value):
    """The setting is given in code AND (with another value) in the environment: the code value wins, also through deep.start."""
    import deep as dp
    from deep.config.config_service import ConfigService
    got = []

    class FakeDeep:
        def __init__(self, cfg):
            got.append(cfg)

        def start(self):
            pass
    env = {"DEEP_" + key: "9" if key == "POLL_TIMER" else "/from-env"}
    real_deep, real_os, real_init = dp.Deep, dp.os, dp.logging.init
    dp.Deep, dp.os, dp.logging.init = FakeDeep, FakeOs(env), (lambda cfg=None: None)
    try:
        with _Env(env):
            code = {key: code_value}
            if key != "APP_ROOT":
                code["APP_ROOT"] = "/app"
            dp.start(code)
            b = _behaviour(key, got[0])
    finally:
        dp.Deep, dp.os, dp.logging.init = real_deep, real_os, real_init
    world.reached()
    if b != _reference(key, text):
        return "C19:precedence:%s-environment-beats-the-value-given-in-code" % key
    return ""


def _mut_include_before_exclude():
    from deep.config.config_service import ConfigService

    def is_app_frame(self, filename):
        for path in self.IN_APP_INCLUDE:
            if filename.startswith(path):
                return True, path
        for path in self.IN_APP_EXCLUDE:
            if filename.startswith(path):
                return False, path
        if filename.startswith(self.APP_ROOT):
            return True, self.APP_ROOT
        return False, None
    ConfigService.is_app_frame = is_app_frame


def _mut_env_over_code():
    from deep.config.config_service import ConfigService
    orig = ConfigService.__getattribute__

    def __getattribute__(self, name):
        if name.isupper():
            import deep.config.config_service as cs
            v = cs.os.getenv("DEEP_%s" % name, None)
            if v is not None:
                return v
        return orig(self, name)
    ConfigService.__getattribute__ = __getattribute__


MUTANTS = {"include_before_exclude": _mut_include_before_exclude, "env_over_code": _mut_env_over_code}

CONDITIONS = [
    dict(fn="lookup", cubes=["ki == %d and ck == %d" % (k, c) for k in range(6) for c in range(10)],
         twins=["reach", "mutant:env_over_code@ki == 4 and ck == 1"],
         bounds="6 keys (4 documented incl. a callable default, 2 unknown) x 10 code-value kinds (absent, str, 0, '', None, lambda, functools.partial, bound method, callable object, built-in function) x env present/absent"),
    dict(fn="app_frame", cubes=["ni == %d and ne == %d and len(filename) == %d and ri == %d" % (a, b, n, r)
                                for a in range(3) for b in range(3) for n in range(5) for r in range(4)],
         twins=["reach", "mutant:include_before_exclude@ni == 1 and ne == 1 and len(filename) == 2 and ri == 0"],
         bounds="file name FREE symbolic string <= 4 chars; 0-2 include and 0-2 exclude prefixes (FREE symbolic, <= 2 and <= 1 chars); app root from a pool of 4"),
    dict(fn="equivalence", cubes=["ci == %d" % i for i in range(27)], twins=["reach"],
         bounds="24 cases over all documented keys: env text vs the natural code value, and code value against a different DEEP_ variable through deep.start"),
]
