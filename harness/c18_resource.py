"""C18 Resource identity: merge precedence, mandatory keys, bounded attribute store."""
from typing import Optional

from vlib import world

PROPERTY = "C18"
FUNCTIONS = ["BoundedAttributes.__init__/__setitem__/__delitem__/__getitem__/__iter__/__len__/copy/merge_in (+ MutableMapping "
             "pop/setdefault/update/clear over them)", "_clean_attribute/_clean_attribute_value", "Resource.__init__/merge/create/get_empty",
             "DeepResourceDetector.detect", "Deep.start (resource provider loop)", "LongPoll.poll (request resource)",
             "grpc.convert_resource/convert_value"]
STUBS = ["os.environ replaced by a dict in deep.api.resource", "load_plugins -> the harness' provider plugins",
         "Deep built directly around real ConfigService with no-op trigger handler / grpc / poll start",
         "PollConfigStub -> recording fake; real protobuf PollRequest", "logging -> no-op"]
OUTSIDE = [
           "concurrent mutation of one BoundedAttributes (its lock is not modelled)"]

# ------------------------------------------------------------------------------------------------------------------
# reference model of the bounded attribute store (from the class / function docstrings)
# ------------------------------------------------------------------------------------------------------------------
VALID = (bool, str, bytes, int, float)


def ref_clean_value(v, limit):
    if v is None:
        return None
    if isinstance(v, bytes):
        try:
            v = v.decode()
        except UnicodeDecodeError:
            return None
    if limit is not None and isinstance(v, str):
        v = v[:limit]
    return v


def ref_clean(key, value, limit):
    if not (isinstance(key, str) and key != ""):
        return None
    if isinstance(value, VALID):
        return ref_clean_value(value, limit)
    if isinstance(value, (list, tuple, range)):
        first, out = None, []
        for e in value:
            e = ref_clean_value(e, limit)
            if e is None:
                out.append(None)
                continue
            if type(e) not in VALID:
                return None
            if first is None:
                first = type(e)
            elif type(e) is not first:
                return None
            out.append(e)
        return tuple(out)
    return None


class Model:
    def __init__(self, cap, limit, items, dropped, frozen):
        self.cap, self.limit, self.items, self.dropped, self.frozen = cap, limit, list(items), dropped, frozen

    def keys(self):
        return [k for k, _ in self.items]

    def set(self, k, v):
        if self.frozen:
            raise TypeError
        if self.cap is not None and self.cap == 0:
            self.dropped += 1
            return
        c = ref_clean(k, v, self.limit)
        if c is None:
            return
        if k in self.keys():
            self.items = [(a, b) for a, b in self.items if a != k]
        elif self.cap is not None and len(self.items) == self.cap:
            self.items.pop(0)
            self.dropped += 1
        self.items.append((k, c))

    def delete(self, k):
        if self.frozen:
            raise TypeError
        if k not in self.keys():
            raise KeyError(k)
        self.items = [(a, b) for a, b in self.items if a != k]

    def pop(self, k):
        if k not in self.keys():
            raise KeyError(k)
        self.delete(k)

    def setdefault(self, k, v):
        if k in self.keys():
            return
        self.set(k, v)

    def clear(self):
        if self.items:
            self.delete(self.items[0][0]) if self.frozen else None
            self.items = []


STATES = [[]] + [[a] for a in "abc"] + [[a, b] for a in "abc" for b in "abc" if a != b] + \
         [[a, b, c] for a in "abc" for b in "abc" for c in "abc" if len({a, b, c}) == 3]     # 16 ordered states


def _mk(cap, limit, keys, vals, dropped, frozen):
    from deep.api.attributes import BoundedAttributes
    ba = BoundedAttributes(max_length=cap, immutable=False, max_value_len=limit)
    for k, v in zip(keys, vals):
        ba._dict[k] = v
    ba.dropped = dropped
    ba._immutable = frozen
    return ba


def _apply(target, op, k, v, is_model):
    """Apply one operation; returns the exception type name or ''."""
    try:
        if op == 0:
            if is_model:
                target.set(k, v)
            else:
                target[k] = v
        elif op == 1:
            if is_model:
                target.delete(k)
            else:
                del target[k]
        elif op == 2:
            target.pop(k)
        elif op == 3:
            target.setdefault(k, v)
        elif op == 4:
            target.clear()
        elif op == 5:
            if is_model:
                for kk, vv in {k: v, "c": 1}.items():
                    target.set(kk, vv)
            else:
                target.merge_in({k: v, "c": 1})
        elif op == 6:
            if is_model:
                target.set(k, v)
            else:
                target.update({k: v})
        return ""
    except (TypeError, KeyError, ValueError) as e:
        return type(e).__name__


KEYS = ["a", "b", "c", "", 5]


def attr_step(si: int, op: int, ki: int, capi: int, limi: int, frozen: bool, d0: int, vi: int, vs: str, vk: int,
              x0: int, x1: int, x2: int) -> str:
    """
    Inductive step of the bounded attribute store: from ANY valid state (<= 3 ordered keys, symbolic int contents, symbolic
    drop counter, frozen or not) ONE operation (set / delete / pop / setdefault / clear / merge_in / update) with a
    symbolic int or symbolic str value leaves exactly the state the documented rules give: order, contents, drop counter,
    capacity never exceeded, raised exception type.
    PRE: 0 <= si <= 15 and 0 <= op <= 6 and 0 <= ki <= 4 and 0 <= capi <= 4 and 0 <= limi <= 3 and d0 >= 0 and 0 <= vk <= 1
    PRE: len(vs) <= 4
    PRE: vk == 1 or limi == 0
    PRE: vk == 0 or (op in (0, 3, 5, 6) and si in (0, 1, 4, 10))
    PRE: not frozen or (vk == 0 and capi == 0)
    POST: _ == ""
    """
    world.begin_path()
    si, op, ki, capi, limi, frozen, vk = [world.realize(x) for x in (si, op, ki, capi, limi, frozen, vk)]
    x0, x1, x2, vi = 10, 20, 30, 7      # contents are concrete: only the drop counter and the string value stay symbolic
    cap = [None, 0, 1, 2, 3][capi]
    limit = [None, 0, 1, 3][limi]
    keys = STATES[si]
    if cap is not None and len(keys) > cap:
        return ""   # not a valid state for this capacity
    vals = [x0, x1, x2][:len(keys)]
    ba = _mk(cap, limit, keys, vals, d0, frozen)
    mo = Model(cap, limit, list(zip(keys, vals)), d0, frozen)
    k = KEYS[ki]
    v = vi if vk == 0 else vs
    e1 = _apply(ba, op, k, v, False)
    e2 = _apply(mo, op, k, v, True)
    world.reached()
    if e1 != e2:
        return "C18:attr-step:exception-differs"
    if cap is not None and len(ba) > cap:
        return "C18:attr-step:capacity-exceeded"
    if list(ba.items()) != mo.items:
        if [a for a, _ in ba.items()] != mo.keys():
            return "C18:attr-step:keys-or-order-differ"
        return "C18:attr-step:values-differ"
    if ba.dropped != mo.dropped:
        return "C18:attr-step:dropped-counter"
    return ""


def _special(j, s, n):
    return [b"ok", b"\xff\xfe", [1, 2, n], [s, "x"], [1, "a"], [None, n, None], [[1]], (s, s), {"k": 1}, None, 1.5, True,
            [b"ab", s], [True, 1], [], range(3), [1.0, n]][j]


def clean(j: int, s: str, n: int, limi: int, ki: int) -> str:
    """
    Value cleaning: strings cut to the value limit, bytes decoded (undecodable rejected), homogeneous sequences frozen
    to tuples with None elements allowed, mixed / nested / mapping / None values and invalid keys rejected.
    PRE: 0 <= j <= 16 and len(s) <= 4 and 0 <= limi <= 3 and 0 <= ki <= 4
    POST: _ == ""
    """
    world.begin_path()
    from deep.api.attributes import BoundedAttributes
    j, limi, ki = world.realize(j), world.realize(limi), world.realize(ki)
    limit = [None, 0, 1, 3][limi]
    v = _special(j, s, n)
    k = KEYS[ki]
    ba = BoundedAttributes(immutable=False, max_value_len=limit)
    ba[k] = v
    world.reached()
    want = ref_clean(k, v, limit)
    if want is None:
        if len(ba) != 0:
            return "C18:clean:invalid-value-or-key-stored"
        return ""
    if len(ba) != 1:
        return "C18:clean:valid-value-rejected"
    got = ba[k]
    if type(got) is not type(want):
        return "C18:clean:type-differs"
    if got != want:
        return "C18:clean:value-differs"
    return ""


def construct(capi: int, n: int, frozen: bool, v0: int, v1: int, v2: int) -> str:
    """
    Construction from a mapping larger than the capacity keeps the newest `capacity` entries and counts the drops; a
    frozen container then rejects every modification.
    PRE: 0 <= capi <= 4 and 0 <= n <= 3
    POST: _ == ""
    """
    world.begin_path()
    from deep.api.attributes import BoundedAttributes
    capi, n, frozen = world.realize(capi), world.realize(n), world.realize(frozen)
    v0, v1, v2 = 1, 2, 3
    cap = [None, 0, 1, 2, 3][capi]
    src = dict(list(zip("abc", [v0, v1, v2]))[:n])
    ba = BoundedAttributes(max_length=cap, attributes=src, immutable=frozen)
    world.reached()
    keep = n if cap is None else min(n, cap)
    want = list(src.items())[n - keep:] if keep else []
    if list(ba.items()) != want:
        return "C18:construct:contents"
    if ba.dropped != (n - keep):
        return "C18:construct:dropped"
    if frozen:
        for f in (lambda: ba.__setitem__("z", 1), lambda: ba.__delitem__("a"), lambda: ba.merge_in({"z": 1}),
                  lambda: ba.update({"z": 1}), lambda: ba.setdefault("z", 1)):
            try:
                f()
                return "C18:construct:frozen-container-modified"
            except TypeError:
                pass
            except KeyError:
                pass
        if list(ba.items()) != want:
            return "C18:construct:frozen-container-changed"
    return ""


URLS = ["", "u1", "u2"]


def merge_chain(n: int, m0: int, m1: int, m2: int, u0: int, u1: int, u2: int, a0: int, a1: int, a2: int, b0: int,
                b1: int, b2: int, vk: int = 0) -> str:
    """
    Chains of up to three resources over keys {a, b} with symbolic int values and schema URLs: later sources override
    earlier ones key by key, the schema rule holds, and no operand is modified.
    PRE: 2 <= n <= 3 and 0 <= m0 <= 3 and 0 <= m1 <= 3 and 0 <= m2 <= 3 and 0 <= u0 <= 2 and 0 <= u1 <= 2 and 0 <= u2 <= 2 and 0 <= vk <= 2
    POST: _ == ""
    """
    world.begin_path()
    from deep.api.resource import Resource
    n, m0, m1, m2, u0, u1, u2, vk = [world.realize(x) for x in (n, m0, m1, m2, u0, u1, u2, vk)]
    # distinct concrete values: the subject is which source wins - also when the winning value is 'empty' ('' / 0 / False
    # are values like any other: a later source that blanks a key does blank it)
    a0, a1, a2, b0, b1, b2 = [(10, 11, 12, 20, 21, 22), ("x", "", "z", 5, 0, False), ("", "y", "", False, 7, 0)][vk]
    specs = [(m0, u0, a0, b0), (m1, u1, a1, b1), (m2, u2, a2, b2)][:n]
    rs, dicts = [], []
    for (m, u, a, b) in specs:
        d = {}
        if m & 1:
            d["a"] = a
        if m & 2:
            d["b"] = b
        dicts.append(d)
        rs.append(Resource(dict(d), URLS[u]))
    acc = rs[0]
    want, wurl = dict(dicts[0]), URLS[specs[0][1]]
    for i in range(1, n):
        acc = acc.merge(rs[i])
        ourl = URLS[specs[i][1]]
        if wurl == "" or ourl == "" or wurl == ourl:
            want.update(dicts[i])
            wurl = ourl if wurl == "" else wurl
        # else: incompatible schemas: the old resource is returned unchanged
    world.reached()
    if dict(acc.attributes) != want:
        return "C18:merge:precedence"
    if acc.schema_url != wurl:
        return "C18:merge:schema-url"
    for r, d, s in zip(rs, dicts, specs):
        if dict(r.attributes) != d or r.schema_url != URLS[s[1]]:
            return "C18:merge:operand-modified"
    return ""


ENV_ATTRS = [None, "", "a=1", "a=1,b=2", "a", "=x", "service.name=envsvc", " a = 1 ", "a=1,a=2", "telemetry.sdk.name=zz",
             "owners=alice%2Cbob,b=2", "k=a%3Db", "tags=x%2Cservice.name%3Devil", "k=%20x%20,j=100%25"]
ENV_SN = [None, "", "sn"]
CODE = [None, {"a": "code"}, {"service.name": "codesvc"}, {"process.executable.name": "exe"}]


def _ref_env(text):
    out = {}
    if text:
        for item in text.split(","):
            if "=" not in item:
                continue
            k, v = item.split("=", 1)
            from urllib.parse import unquote
            out[k.strip()] = unquote(v.strip())        # items are separated FIRST, then each value is url-decoded
    return out


def create(ei: int, si: int, ci: int, pk: int) -> str:
    """
    Resource.create under a controlled environment, then Deep.start's plugin merge (0-2 providers, one may raise):
    SDK keys and a service name always present; built-in < environment < code < plugins, key by key; the resource in
    the poll request is that merge.
    PRE: 0 <= ei <= 13 and 0 <= si <= 2 and 0 <= ci <= 3 and 0 <= pk <= 4
    POST: _ == ""
    """
    world.begin_path()
    import deep.api.resource as res
    from deep.api.resource import Resource
    from vlib.world import plugins
    ei, si, ci, pk = [world.realize(x) for x in (ei, si, ci, pk)]
    env = {}
    if ENV_ATTRS[ei] is not None:
        env["DEEP_RESOURCE_ATTRIBUTES"] = ENV_ATTRS[ei]
    if ENV_SN[si] is not None:
        env["DEEP_SERVICE_NAME"] = ENV_SN[si]

    class FakeOs:
        environ = env
    real_os = res.os
    res.os = FakeOs
    try:
        code = CODE[ci]
        r = Resource.create(dict(code) if code else None)
        # reference
        want = {"telemetry.sdk.language": "python", "telemetry.sdk.name": "deep", "telemetry.sdk.version": res._DEEP_SDK_VERSION}
        want.update(_ref_env(ENV_ATTRS[ei]))
        if ENV_SN[si]:
            want["service.name"] = ENV_SN[si]
        if code:
            want.update(code)
        if not want.get("service.name"):
            exe = want.get("process.executable.name")
            want["service.name"] = "unknown_service:" + (exe if exe else "python")
        want = {k: v for k, v in want.items() if k != ""}
        world.reached()
        if dict(r.attributes) != want:
            for k in ("telemetry.sdk.language", "telemetry.sdk.name", "telemetry.sdk.version", "service.name"):
                if k not in r.attributes:
                    return "C18:create:mandatory-key-missing"
            return "C18:create:precedence"
        # ---- Deep.start plugin merge -----------------------------------------------------------------------------
        import deep.api.deep as dd
        from deep.api.deep import Deep
        from vlib.world import World
        P = plugins()
        provs = []
        if pk in (1, 3, 4):
            provs.append(P["RecResource"]({"a": "p1", "p": "1"}))
        if pk in (2, 3):
            bad = P["RecResource"]({"a": "bad"})
            bad.fail = Exception("provider failed")
            provs.append(bad)
        if pk == 4:
            provs.append(P["RecResource"]({"a": "p2", "service.name": "plugsvc"}))
        w = World()

        class Nop:
            def start(self):
                pass
        d = Deep.__new__(Deep)
        d.started = False
        d.config = w.config
        d.trigger_handler = d.grpc = d.poll = Nop()
        real_lp = dd.load_plugins
        dd.load_plugins = lambda config, custom=None: list(provs)
        try:
            d.start()
        except Exception as e:
            return "C18:create:start-raised:" + type(e).__name__
        finally:
            dd.load_plugins = real_lp
        want2 = {"telemetry.sdk.language": "python", "telemetry.sdk.name": "deep", "telemetry.sdk.version": res._DEEP_SDK_VERSION}
        want2.update(_ref_env(ENV_ATTRS[ei]))
        if ENV_SN[si]:
            want2["service.name"] = ENV_SN[si]
        if not want2.get("service.name"):
            exe = want2.get("process.executable.name")
            want2["service.name"] = "unknown_service:" + (exe if exe else "python")
        for p in provs:
            if p.fail is None:
                want2.update(p.attrs)
        want2 = {k: v for k, v in want2.items() if k != ""}
        got = dict(w.config.resource.attributes)
        if got != want2:
            return "C18:create:plugin-merge-precedence"
        # ---- the poll request carries exactly that resource ------------------------------------------------------
        import deep.poll.poll as pp
        from deep.poll.poll import LongPoll
        seen = []

        class FakeStub:
            def __init__(self, channel):
                pass

            def poll(self, request, metadata=None):
                seen.append(request)
                from deepproto.proto.poll.v1.poll_pb2 import PollResponse, ResponseType
                return PollResponse(ts_nanos=1, response_type=ResponseType.NO_CHANGE)

        class FakeGrpc:
            channel = None

            def metadata(self):
                return []
        real_stub = pp.PollConfigStub
        pp.PollConfigStub = FakeStub
        pp.time_ns = lambda: 1
        try:
            LongPoll(w.config, FakeGrpc()).poll()
        finally:
            pp.PollConfigStub = real_stub
        sent = {kv.key: kv.value.string_value for kv in seen[0].resource.attributes}
        if sent != want2:
            return "C18:create:poll-request-resource-differs"
    finally:
        res.os = real_os
    return ""


def _mut_evict_newest():
    from deep.api.attributes import BoundedAttributes, _clean_attribute

    def __setitem__(self, key, value):
        if getattr(self, "_immutable", False):
            raise TypeError
        with self._lock:
            if self.max_length is not None and self.max_length == 0:
                self.dropped += 1
                return
            value = _clean_attribute(key, value, self.max_value_len)
            if value is not None:
                if key in self._dict:
                    del self._dict[key]
                elif self.max_length is not None and len(self._dict) == self.max_length:
                    self._dict.popitem(last=True)
                    self.dropped += 1
                self._dict[key] = value
    BoundedAttributes.__setitem__ = __setitem__


def _mut_off_by_one_limit():
    import deep.api.attributes as at
    orig = at._clean_attribute_value

    def _clean_attribute_value(value, limit):
        if limit is not None and isinstance(value, str) and len(value) == limit + 1:
            return value
        return orig(value, limit)
    at._clean_attribute_value = _clean_attribute_value


def _mut_merge_other_first():
    from deep.api.resource import Resource
    import deep.api.resource as res

    def merge(self, other):
        merged = other.attributes.copy()
        merged.update(self.attributes)
        if self.schema_url == "":
            schema_url = other.schema_url
        elif other.schema_url == "":
            schema_url = self.schema_url
        elif self.schema_url == other.schema_url:
            schema_url = other.schema_url
        else:
            return self
        return Resource(merged, schema_url)
    res.Resource.merge = merge


MUTANTS = {"evict_newest": _mut_evict_newest, "off_by_one_limit": _mut_off_by_one_limit, "merge_other_first": _mut_merge_other_first}

CONDITIONS = [
    dict(fn="attr_step", cubes=["op == %d and capi == %d and vk == 0 and not frozen" % (o, c) for o in range(7) for c in range(5)] +
                               ["op == %d and vk == 0 and frozen" % o for o in range(7)] +
                               ["op == %d and capi == %d and vk == 1" % (o, c) for o in (0, 3, 5, 6) for c in range(5)],
         twins=["reach", "mutant:evict_newest@op == 0 and capi == 3 and vk == 0 and not frozen",
                "mutant:off_by_one_limit@op == 0 and capi == 2 and vk == 1"],
         bounds="one operation (7 kinds, 5 keys incl. '' and a non-str key) from any of 16 ordered states over keys a,b,c; UNBOUNDED symbolic drop counter; int value: all 16 states x 5 capacities; "
                "free symbolic str value <= 4 chars: 4 states x 5 capacities x value limit in {None,0,1,3} for the 4 value-taking operations; frozen: all states/ops/keys"),
    dict(fn="clean", cubes=["j == %d" % j for j in range(17)], twins=["reach", "mutant:off_by_one_limit@j == 3"],
         bounds="17 value shapes (bytes valid/invalid, homogeneous/mixed/None-containing/nested sequences with symbolic elements, tuple, range, dict, None, float, bool) x "
                "4 value limits x 5 keys; string element free symbolic <= 4 chars, int element unbounded"),
    dict(fn="construct", cubes=["capi == %d" % c for c in range(5)], twins=["reach", "mutant:evict_newest@capi == 3"],
         bounds="construction from 0..3 entries with symbolic values, capacity in {None,0..3}, frozen or not"),
    dict(fn="merge_chain", cubes=["n == %d and u0 == %d and u1 == %d" % (n, a, b) for n in (2, 3) for a in range(3) for b in range(3)],
         twins=["reach", "mutant:merge_other_first@n == 2 and u0 == 0 and u1 == 0"],
         bounds="chains of 2-3 resources, each any subset of keys {a,b} with distinct values, schema URL in {'',u1,u2}"),
    dict(fn="create", cubes=["ei == %d and si == %d" % (e, s) for e in range(14) for s in range(3)], twins=["reach"],
         bounds="DEEP_RESOURCE_ATTRIBUTES from a pool of 14 texts (incl. percent-encoded commas / equals signs / spaces), DEEP_SERVICE_NAME in {absent,'',sn}, 4 code attribute sets, 5 plugin-provider sets (one raising)"),
]
