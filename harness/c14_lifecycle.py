"""C14 Lifecycle: hooks installed once, restored exactly; shutdown always completes."""
from vlib import world
from vlib.world import plugins

PROPERTY = "C14"
FUNCTIONS = ["Deep.__init__/start/shutdown", "TriggerHandler.start/shutdown", "LongPoll.start/shutdown/poll/__initial_poll",
             "GRPCService.start", "Plugin.shutdown loop", "ConfigService.NO_TRACE lookup"]
STUBS = ["sys / threading in deep.processor.trigger_handler -> recording fakes (settrace/gettrace store a value)",
         "RepeatedTimer in deep.poll.poll -> recording fake (start/stop, stop may raise)", "PollConfigStub -> scripted (ok / raises)",
         "grpc module in deep.grpc.grpc_service -> fake channel", "load_plugins -> the harness' plugins (shutdown may raise)",
         "task handler -> recording fake (flush may raise; inline tasks)", "logging -> no-op"]
OUTSIDE = ["real daemon-thread liveness of RepeatedTimer", "TaskHandler.flush internals (C09)"]


class FakeTraceMod:
    def __init__(self, initial):
        self.cur = initial
        self.sets = []

    def settrace(self, f):
        self.sets.append(f)
        self.cur = f

    def gettrace(self):
        return self.cur

    def settrace_all_threads(self, f):
        """python 3.12 threading API: sets the hook for new threads AND the trace function of every running thread."""
        self.sets.append(f)
        self.cur = f
        if self.env is not None:
            self.env.fsys.sets.append(f)
            self.env.fsys.cur = f
            self.env.other_thread_trace = f

    env = None


class FakeTimer:
    instances = []

    def __init__(self, name, interval, function, *a, **k):
        self.started = 0
        self.stopped = 0
        self.fail_stop = None
        FakeTimer.instances.append(self)
        if FakeTimer.fail_next_stop:
            self.fail_stop = FakeTimer.fail_next_stop

    fail_next_stop = None

    def start(self):
        self.started += 1

    def stop(self):
        self.stopped += 1
        if self.fail_stop:
            raise self.fail_stop


class FakeTasks:
    def __init__(self):
        self.flushed = 0
        self.fail_flush = None

    class F:
        def add_done_callback(self, cb):
            cb(self)

        def exception(self):
            return None

    def submit_task(self, task, *args):
        task(*args)
        return FakeTasks.F()

    def flush(self):
        self.flushed += 1
        if self.fail_flush:
            raise self.fail_flush


class _FakeGrpcMod:
    def secure_channel(self, target, creds):
        return "chan"

    def insecure_channel(self, target):
        return "chan"

    def ssl_channel_credentials(self):
        return "creds"


def trace_a(frame, event, arg):
    return None


def trace_b(frame, event, arg):
    return None


def trace_c(frame, event, arg):
    return None


PRE = [None, trace_a, trace_b]
APP_SETS = [(trace_c, None), (None, trace_c), (trace_b, trace_a)]     # what the application installs while the agent is stopped


class Env:
    def __init__(self, sys0, thr0, no_trace, poll_fails, plugin_fail_mask, flush_fails, stop_fails, fail_base):
        import deep.processor.trigger_handler as th
        import deep.poll.poll as pp
        import deep.grpc.grpc_service as gs
        import deep.api.deep as dd
        from deep.api.deep import Deep
        from deep.config import ConfigService
        from deep.config.tracepoint_config import TracepointConfigService
        from deep.api.plugin import Plugin
        self.mods = (th, pp, gs, dd)
        self.saved = (th.sys, th.threading, pp.RepeatedTimer, pp.PollConfigStub, gs.grpc, dd.load_plugins, pp.time_ns)
        self.fsys, self.fthr = FakeTraceMod(PRE[sys0]), FakeTraceMod(PRE[thr0])
        self.fthr.env = self
        self.other_thread_trace = trace_b       # the trace function of a thread that was already running before start
        th.sys, th.threading = self.fsys, self.fthr
        FakeTimer.instances = []
        exc = (lambda m: KeyboardInterrupt(m)) if fail_base else (lambda m: RuntimeError(m))
        FakeTimer.fail_next_stop = exc("timer stop failed") if stop_fails else None
        pp.RepeatedTimer = FakeTimer
        self.polls = []
        env = self

        class Stub:
            def __init__(self, channel):
                pass

            def poll(self, request, metadata=None):
                env.polls.append(request)
                if poll_fails:
                    raise RuntimeError("service down")
                from deepproto.proto.poll.v1.poll_pb2 import PollResponse, ResponseType
                return PollResponse(ts_nanos=1, response_type=ResponseType.NO_CHANGE)
        pp.PollConfigStub = Stub
        pp.time_ns = lambda: 1
        gs.grpc = _FakeGrpcMod()

        class P(Plugin):
            def __init__(self, i):
                super().__init__(name="p%d" % i, config=None)
                self.downs = 0
                self.fail = None

            def shutdown(self):
                self.downs += 1
                if self.fail:
                    raise self.fail
        self.plugins = [P(i) for i in range(3)]
        for i, p in enumerate(self.plugins):
            if (plugin_fail_mask >> i) & 1:
                p.fail = exc("plugin %d shutdown failed" % i)
        self.plugin_loads = 0

        def load(config, custom=None):
            self.plugin_loads += 1
            return list(self.plugins)
        dd.load_plugins = load
        cfg = {"APP_ROOT": "/app", "SERVICE_SECURE": "False"}
        if no_trace is not None:
            cfg["NO_TRACE"] = no_trace
        self.config = ConfigService(cfg, tracepoints=TracepointConfigService())
        self.deep = Deep(self.config)
        self.tasks = FakeTasks()
        if flush_fails:
            self.tasks.fail_flush = exc("delivery failed")
        self.deep.task_handler = self.tasks
        self.deep.push.task_handler = self.tasks
        self.config.set_task_handler(self.tasks)

    def close(self):
        th, pp, gs, dd = self.mods
        th.sys, th.threading, pp.RepeatedTimer, pp.PollConfigStub, gs.grpc, dd.load_plugins, pp.time_ns = self.saved


NO_TRACE_VALUES = [None, True, False, "True", "false", "0", "False"]      # absent / bools / text as it arrives from DEEP_NO_TRACE


def lifecycle(o1: int, o2: int, o3: int, o4: int, n: int, sys0: int, thr0: int, nt: int, poll_fails: bool,
              pmask: int, flush_fails: bool, stop_fails: bool, fail_base: bool) -> str:
    """
    Histories of up to 4 start / shutdown calls (and the application replacing the trace hooks while the agent is stopped) with pre-existing sys and threading trace functions, tracing enabled or
    disabled, and any subset of {poll failing, delivery flush failing, timer stop failing, plugin k's shutdown failing}
    (failing with Exception or a BaseException): hooks installed once and restored exactly (untouched when disabled),
    every shutdown step performed once whatever fails, started flag truthful.
    PRE: 0 <= o1 <= 4 and 0 <= o2 <= 4 and 0 <= o3 <= 4 and 0 <= o4 <= 4 and 1 <= n <= 4
    PRE: 0 <= sys0 <= 2 and 0 <= thr0 <= 2 and 0 <= pmask <= 7 and not fail_base and 0 <= nt <= 6
    PRE: n >= 4 or o4 == 0
    PRE: n >= 3 or o3 == 0
    PRE: n >= 2 or o2 == 0
    POST: _ == ""
    """
    world.begin_path()
    v = [world.realize(x) for x in (o1, o2, o3, o4, n, sys0, thr0, nt, poll_fails, pmask, flush_fails, stop_fails, fail_base)]
    ops = v[:4][:v[4]]
    sys0, thr0, nt, poll_fails, pmask, flush_fails, stop_fails, fail_base = v[5:]
    nt_value = NO_TRACE_VALUES[nt]
    # tracing is certainly disabled for True, certainly enabled when absent / False; for text the agent decides - but its
    # start and shutdown must agree with each other
    no_trace = True if nt_value is True else (False if nt_value in (None, False) else None)
    env = Env(sys0, thr0, nt_value, poll_fails, pmask, flush_fails, stop_fails, fail_base)
    try:
        d = env.deep
        started = False
        saved = None
        exp_sys, exp_thr = PRE[sys0], PRE[thr0]
        n_shutdowns = 0
        if 0 in ops:
            ops = list(ops) + [1]       # every history ends with a shutdown (a no-op when already stopped)
        for op in ops:
            if op == 0:     # start
                loads = env.plugin_loads
                try:
                    d.start()
                except BaseException as e:  # noqa
                    if world.is_engine_exc(e):
                        raise
                    return "C14:start-raised:" + type(e).__name__
                started_before = started
                if not started:
                    started = True
                    decided = no_trace
                    if decided is None:     # text value: read off what start() did, shutdown must then undo exactly that
                        decided = not (env.fsys.cur == d.trigger_handler.trace_call and env.fthr.cur == d.trigger_handler.trace_call)
                    saved = (exp_sys, exp_thr)
                    if not decided:
                        exp_sys = exp_thr = d.trigger_handler.trace_call
                if not d.started:
                    return "C14:started-flag-false-after-start"
                if env.plugin_loads != loads + (0 if started_before else 1):
                    return "C14:start-while-started-reloaded-the-plugins(first set never shut down)" if started_before else "C14:plugins-not-loaded-once-by-start"
            elif op >= 2:   # the APPLICATION changes the process trace hooks (only while the agent is stopped)
                if started:
                    continue
                a_sys, a_thr = APP_SETS[op - 2]
                env.fsys.cur, env.fthr.cur = a_sys, a_thr
                exp_sys, exp_thr = a_sys, a_thr
                continue
            else:           # shutdown
                try:
                    d.shutdown()
                except BaseException as e:  # noqa  (completing every step and then reporting the failure is acceptable)
                    if world.is_engine_exc(e):
                        raise
                if started:
                    started = False
                    n_shutdowns += 1
                    exp_sys, exp_thr = saved
                if d.started:
                    return "C14:started-flag-still-true-after-shutdown"
            world.reached()
            # ---- hooks
            if env.fsys.cur != exp_sys or env.fthr.cur != exp_thr:
                if no_trace:
                    return "C14:hooks-touched-although-tracing-disabled"
                if op == 0:
                    return "C14:hooks-not-installed-or-installed-wrongly"
                return "C14:previous-hooks-not-restored-exactly"
            if no_trace is True and (env.fsys.sets or env.fthr.sets):
                return "C14:hooks-touched-although-tracing-disabled"
            if not started and env.other_thread_trace != trace_b:
                return "C14:trace-function-of-an-already-running-thread-replaced-and-not-restored"
            # ---- timers: exactly one running while started, none after shutdown
            running = [t for t in FakeTimer.instances if t.started > t.stopped]
            if started and len(running) != 1:
                return "C14:poll-timer-count-while-started"
            if not started and any(t.started and t.stopped == 0 for t in FakeTimer.instances):
                return "C14:poll-timer-not-stopped-by-shutdown"
            # ---- shutdown steps performed once per shutdown
            if env.tasks.flushed != n_shutdowns:
                return "C14:delivery-not-drained-exactly-once-per-shutdown"
            for p in env.plugins:
                if p.downs != n_shutdowns:
                    return "C14:plugin-shutdown-not-called-exactly-once-per-shutdown"
        n_starts_effective = n_shutdowns + (1 if started else 0)
        if no_trace is False:
            installs = [f for f in env.fsys.sets if f == d.trigger_handler.trace_call]
            n_starts_effective = sum(1 for _ in installs) if False else n_starts_effective
            if len(installs) != n_starts_effective:
                return "C14:hooks-installed-more-than-once-per-start"
    finally:
        env.close()
    return ""


def real_timer(cycles: int, poll_fails: int, timer_text: int) -> str:
    """
    The REAL LongPoll.start / shutdown and RepeatedTimer (threading.Thread / Event in deep.utils replaced by recording
    stand-ins): each start makes one initial poll (a failing one is survived) and starts exactly one daemon thread on the
    timer loop; each shutdown sets the timer's event BEFORE joining its thread (otherwise the join never returns), and the
    loop, run with the event set, ends without polling again; nothing is left running after the last shutdown.
    PRE: 1 <= cycles <= 3 and 0 <= poll_fails <= 2 and 0 <= timer_text <= 2
    POST: _ == ""
    """
    world.begin_path()
    import types
    import deep.utils as du
    import deep.poll.poll as pp
    from deep.poll.poll import LongPoll
    from deepproto.proto.poll.v1.poll_pb2 import PollResponse, ResponseType
    from vlib.world import World
    cycles, poll_fails, timer_text = world.realize(cycles), world.realize(poll_fails), world.realize(timer_text)
    log = []

    class RecEvent:
        def __init__(self):
            self.flag = False

        def set(self):
            self.flag = True
            log.append(("set", id(self)))

        def is_set(self):
            return self.flag

        def wait(self, timeout=None):
            log.append(("wait", timeout))
            return self.flag

    class RecThread:
        instances = []

        def __init__(self, target=None, name=None, args=(), kwargs=None, daemon=None):
            self.target, self.name, self.daemon = target, name, daemon
            self.started = self.joined = 0
            RecThread.instances.append(self)

        def start(self):
            self.started += 1
            log.append(("start", id(self)))

        def join(self, timeout=None):
            self.joined += 1
            log.append(("join", id(self)))

        def is_alive(self):
            return self.started > self.joined
    RecThread.instances = []
    polls = []

    class Stub:
        def __init__(self, channel):
            pass

        def poll(self, request, metadata=None):
            polls.append(1)
            if poll_fails == 1 or (poll_fails == 2 and len(polls) == 1):
                raise RuntimeError("service unavailable")
            return PollResponse(ts_nanos=1, current_hash="", response_type=ResponseType.NO_CHANGE)

    class FakeGrpc:
        channel = None

        def metadata(self):
            return []
    w = World(custom={"POLL_TIMER": [10, "10", "2.5"][timer_text]})
    saved = (du.Thread, du.Event, pp.PollConfigStub, pp.time_ns)
    du.Thread, du.Event, pp.PollConfigStub, pp.time_ns = RecThread, RecEvent, Stub, (lambda: 1)
    real_time = du.time
    du.time = types.SimpleNamespace(time=lambda: 3.0)
    try:
        lp = LongPoll(w.config, FakeGrpc())
        for c in range(cycles):
            before_polls, before_threads = len(polls), len(RecThread.instances)
            try:
                lp.start()
            except Exception as e:
                world.reached()
                return "C14:timer:start-raised:" + type(e).__name__
            if len(polls) != before_polls + 1:
                return "C14:timer:initial-poll-not-made-once"
            new = RecThread.instances[before_threads:]
            if len(new) != 1 or new[0].started != 1:
                return "C14:timer:not-exactly-one-timer-thread-started"
            th = new[0]
            if not th.daemon:
                return "C14:timer:timer-thread-not-daemon(keeps the host process alive)"
            mark = len(log)
            try:
                lp.shutdown()
            except Exception as e:
                world.reached()
                return "C14:timer:shutdown-raised:" + type(e).__name__
            tail = [e[0] for e in log[mark:]]
            if "set" not in tail or "join" not in tail:
                return "C14:timer:timer-not-stopped-by-shutdown"
            if tail.index("set") > tail.index("join"):
                return "C14:timer:join-before-the-stop-event-is-set(never returns)"
            if th.joined != 1:
                return "C14:timer:timer-thread-not-joined-once"
            n_polls = len(polls)
            th.target()              # the thread body, as it would now run: the event is set, so it must end at once
            if len(polls) != n_polls:
                return "C14:timer:polling-continues-after-shutdown"
            try:
                lp.shutdown()        # a second shutdown is a no-op
            except Exception as e:
                return "C14:timer:second-shutdown-raised:" + type(e).__name__
        world.reached()
        if any(t.is_alive() for t in RecThread.instances):
            return "C14:timer:thread-left-running"
    finally:
        du.Thread, du.Event, pp.PollConfigStub, pp.time_ns = saved
        du.time = real_time
    return ""


def _mut_skip_threading_restore():
    from deep.processor.trigger_handler import TriggerHandler
    import deep.processor.trigger_handler as th

    def shutdown(self):
        if self._config.NO_TRACE:
            return
        th.sys.settrace(self._TriggerHandler__old_sys_trace)
    TriggerHandler.shutdown = shutdown


def _mut_restart_installs_again():
    from deep.api.deep import Deep
    orig = Deep.start

    def start(self):
        if self.started:
            self.trigger_handler.start()
            return
        orig(self)
    Deep.start = start


def _mut_shutdown_unguarded():
    from deep.api.deep import Deep

    def shutdown(self):
        if not self.started:
            return
        self.trigger_handler.shutdown()
        self.task_handler.flush()
        self.poll.shutdown()
        for plugin in self.config.plugins:
            plugin.shutdown()
        self.started = False
    Deep.shutdown = shutdown


def _mut_stop_without_set():
    from deep.utils import RepeatedTimer

    def stop(self):
        self.thread.join()
        self.event.set()
    RepeatedTimer.stop = stop


MUTANTS = {"stop_without_set": _mut_stop_without_set, "skip_threading_restore": _mut_skip_threading_restore, "restart_installs_again": _mut_restart_installs_again,
           "shutdown_unguarded": _mut_shutdown_unguarded}

_FAIL = ["not poll_fails and pmask == 0 and not flush_fails and not stop_fails and not fail_base",
         "pmask == 2 and not flush_fails and not stop_fails", "pmask == 5 and flush_fails and not stop_fails", "pmask == 0 and flush_fails and stop_fails",
         "pmask == 7 and not flush_fails and stop_fails"]
CONDITIONS = [
    dict(fn="real_timer", cubes=["cycles == %d" % c for c in (1, 2, 3)], twins=["reach", "mutant:stop_without_set"],
         bounds="real LongPoll.start/shutdown + RepeatedTimer with recording Thread/Event: 1-3 start/shutdown cycles x initial poll ok / always failing / failing once x POLL_TIMER as int / text / fractional text"),
    dict(fn="lifecycle",
         cubes={"quick": ["n == %d and (%s) and sys0 == %d and nt <= 1 and o1 <= 1 and o2 <= 1 and o3 <= 1" % (n, f, s) for n in (2, 3) for f in _FAIL for s in range(3)] +
                         ["n == 2 and (%s) and sys0 == 1 and nt == %d and o1 <= 1 and o2 <= 1" % (_FAIL[0], t) for t in (2, 3, 4, 5, 6)] +
                         ["n == 4 and (%s) and sys0 == %d and thr0 == 2 and nt == 0 and o1 == 0 and o2 == 1 and o3 == %d and o4 <= 1" % (_FAIL[0], s, o) for s in range(3) for o in (2, 3, 4)] +
                         ["n == 4 and (%s) and sys0 == 1 and thr0 == 2 and nt == 0 and o1 == %d and o2 == 0 and o3 == 1 and o4 <= 1" % (_FAIL[0], o) for o in (2, 3, 4)],
                "thorough": ["n == 3 and pmask == %d and sys0 == %d and thr0 == %d and o1 == %d" % (m, s, t, o) for m in (0, 2, 5, 7) for s in range(3) for t in (0, 2) for o in range(5)] +
                            ["n == 4 and pmask == %d and sys0 == %d and thr0 == 2 and nt <= 1 and o1 == 0 and o2 == 1" % (m, s) for m in (0, 7) for s in range(3)]},
         twins=["reach@n == 2 and (%s) and sys0 == 1 and nt <= 1 and o1 <= 1 and o2 <= 1 and o3 <= 1" % _FAIL[0], "mutant:skip_threading_restore@n == 2 and (%s) and sys0 == 1 and nt <= 1 and o1 <= 1 and o2 <= 1 and o3 <= 1" % _FAIL[0],
                "mutant:restart_installs_again@n == 2 and (%s) and sys0 == 1 and nt <= 1 and o1 <= 1 and o2 <= 1 and o3 <= 1" % _FAIL[0], "mutant:shutdown_unguarded@n == 2 and (%s) and sys0 == 1 and nt <= 1 and o1 <= 1 and o2 <= 1 and o3 <= 1" % _FAIL[1]],
         bounds="histories of 2-3 (thorough 3-4) start/shutdown calls, plus 4-operation histories in which the application replaces the hooks between two cycles; pre-existing sys and threading trace functions each in {None, A, B}; NO_TRACE absent / True / False / 4 text values (start and shutdown must agree); "
                "failure subsets over {poll, flush, timer stop, 3 plugin shutdowns} (quick: 5 representative subsets; thorough: 4 plugin masks x all others over every history of 3, and the histories of 4 that begin start, shutdown), "
                "failing with Exception or KeyboardInterrupt"),
]
