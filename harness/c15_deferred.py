"""C15 Deferred work (spans, captures) is completed exactly once, in its own thread."""
from vlib import world
from vlib.world import World, FakeFrame, plugins

PROPERTY = "C15"
FUNCTIONS = ["TriggerHandler.trace_call/__process_call_backs", "CallbackContext.at_location/__check_at_next_line/__check_at_method_end/process",
             "SpanActionContext._process_action", "SpanResult/SpanActionCallback.process", "SnapshotActionContext._process_action/_is_deferred",
             "DeferredSnapshotActionResult/DeferredSnapshotActionCallback.process", "ActionContext.process_capture_variable", "ThreadLocal.*"]
STUBS = ["event streams generated from a choice vector by a well-formed sys.settrace grammar (CPython 3.12 delivery order)",
         "FakeFrame per invocation (stable identity across its events)", "threading.current_thread in deep.thread_local -> scripted ident",
         "recording span plugin", "RecPush", "capture actions constructed with STAGE in their config (the builders drop it), as the unit tests do"]
OUTSIDE = ["truly concurrent threads (state is per thread; only ident reuse couples them)", "coroutines / async generators",
           "streams longer than the stated number of choices"]

# choices
LINE1, LINE2, CALL_F, CALL_G, RET, RAISE_CAUGHT, RAISE_PROP = range(7)


class Inv:
    def __init__(self, n, func, parent):
        self.n, self.func, self.parent = n, func, parent
        self.frame = FakeFrame("/app/f.py", func, 0, {"inv": n}, {}, parent.frame if parent else None)
        self.end = None
        self.outcome = None      # ('return', value) | ('exception', exc)


def expand(choices):
    """choice vector -> [(event, inv, arg)] (well formed), list of invocations."""
    invs = []
    root = Inv(0, "root", None)
    invs.append(root)
    ev = [("call", root, None)]
    cur = root

    def new_inv(func):
        i = Inv(len(invs), func, cur)
        invs.append(i)
        return i

    def do_return(inv, value):
        inv.outcome = inv.outcome or ("return", value)
        ev.append(("return", inv, value))
        inv.end = len(ev) - 1
    for c in choices:
        if cur is None:
            break
        if c in (LINE1, LINE2):
            cur.frame_line = 1 if c == LINE1 else 2
            ev.append(("line", cur, None, 1 if c == LINE1 else 2))
        elif c in (CALL_F, CALL_G):
            cur = new_inv("f" if c == CALL_F else "g")
            ev.append(("call", cur, None, 0))
        elif c == RET:
            do_return(cur, "v%d" % cur.n)
            cur = cur.parent
        elif c == RAISE_CAUGHT:
            e = ValueError("caught-in-%d" % cur.n)
            ev.append(("exception", cur, (ValueError, e, None)))
        elif c == RAISE_PROP:
            e = ValueError("from-%d" % cur.n)
            ev.append(("exception", cur, (ValueError, e, None)))
            cur.outcome = ("exception", e)
            do_return(cur, None)
            cur = cur.parent
            if cur is not None:
                ev.append(("exception", cur, (ValueError, e, None)))    # delivered in the caller, which catches it
    while cur is not None:
        do_return(cur, "v%d" % cur.n)
        cur = cur.parent
    return ev, invs


class FakeThread:
    def __init__(self, ident):
        self.ident = ident
        self.name = "worker"        # threads are told apart by ident: applications do give several threads one name


class FakeThreadingMod:
    def __init__(self):
        self.cur = FakeThread(1)

    def current_thread(self):
        return self.cur


TP_SETS = [(0,), (1,), (2,), (3,), (0, 1), (0, 2), (1, 3), (0, 1, 2, 3)]
# 0: method span on f   1: line span on f.py#1   2: method-capture snapshot on f   3: line-capture snapshot on f.py#1


def _triggers(tpset):
    from deep.api.tracepoint.trigger import LocationAction, LineLocation, FunctionLocation, Trigger, Location
    out = []
    lim = {"fire_count": -1, "fire_period": 0}
    if 0 in tpset:
        out.append(Trigger(FunctionLocation("f.py", "f", Location.Position.START),
                           [LocationAction("span-m", None, dict(lim, span="method"), LocationAction.ActionType.Span)]))
    if 1 in tpset:
        out.append(Trigger(LineLocation("f.py", 1, Location.Position.START),
                           [LocationAction("span-l", None, dict(lim, span="line"), LocationAction.ActionType.Span)]))
    if 2 in tpset:
        out.append(Trigger(FunctionLocation("f.py", "f", Location.Position.CAPTURE),
                           [LocationAction("cap-m", None, dict(lim, stage="method_capture", watches=[], frame_type="no_frame"),
                                           LocationAction.ActionType.Snapshot)]))
    if 3 in tpset:
        out.append(Trigger(LineLocation("f.py", 1, Location.Position.CAPTURE),
                           [LocationAction("cap-l", None, dict(lim, stage="line_capture", watches=[], frame_type="no_frame"),
                                           LocationAction.ActionType.Snapshot)]))
    return out


def _run_stream(w, ftm, ident, choices, clock0):
    """Deliver one thread's stream. Returns (failure or '', events, invs, per-event recordings)."""
    ftm.cur = FakeThread(ident)
    ev, invs = expand(choices)
    opens, closes, pushes = {}, {}, {}
    w.now = {"i": -1}
    for i, e in enumerate(ev):
        kind, inv, arg = e[0], e[1], e[2]
        line = e[3] if len(e) > 3 else inv.frame.f_lineno
        inv.frame.f_lineno = line
        w.now["i"] = i
        w.tick += 1
        w.clock.t = w.tick
        w.idx_of[w.tick] = i
        n_log, n_push = len(w.log), len(w.push.snapshots)
        w.event(inv.frame, kind, arg)
        for entry in w.log[n_log:]:
            if entry[0] == "open":
                opens.setdefault((entry[3], entry[2]), []).append((i, inv))
            else:
                closes.setdefault((entry[3], entry[2]), []).append((i, inv))
        for s in w.push.snapshots[n_push:]:
            pushes.setdefault(s.tracepoint.id, []).append((i, inv, s))
    return ev, invs, opens, closes, pushes


def _monitor(tpset, ev, invs, opens, closes, pushes, w):
    # ---- spans: every open closed exactly once, after the open, not after the opening invocation ended
    for key, ol in opens.items():
        (oi, oinv) = ol[0]
        cl = closes.get(key, [])
        if len(ol) != 1:
            return "C15:span-opened-twice-for-one-trigger"
        if len(cl) == 0:
            return "C15:span-never-closed"
        if len(cl) > 1:
            return "C15:span-closed-twice"
        ci = cl[0][0]
        if ci <= oi:
            return "C15:span-closed-before-the-program-moved-on"
        if ci > oinv.end:
            return "C15:span-closed-after-its-invocation-ended"
    for key in closes:
        if key not in opens:
            return "C15:close-without-open"
    # ---- expected openings happened (placement is C03's subject; here: deferred work was registered at all)
    n_f_calls = sum(1 for e in ev if e[0] == "call" and e[1].func == "f")
    if 0 in tpset and len([k for k in opens if k[0] == "span-m"]) != n_f_calls:
        return "C15:method-span-not-opened-per-invocation"
    # ---- deferred snapshots: delivered exactly once per trigger, after it, not after the invocation ended, right value
    if 2 in tpset:
        got = pushes.get("cap-m", [])
        if len(got) != n_f_calls:
            return "C15:method-capture-snapshot-" + ("lost" if len(got) < n_f_calls else "duplicated")
        fcalls = [(i, e[1]) for i, e in enumerate(ev) if e[0] == "call" and e[1].func == "f"]
        # each snapshot carries the context id of its trigger in its attributes; match by order of triggering
        seen_inv = set()
        for (pi, pinv, s) in got:
            ts_idx = w.idx_of.get(s.ts_nanos, -1)
            trig = [inv for (i, inv) in fcalls if i == ts_idx]
            if len(trig) != 1:
                return "C15:method-capture-unknown-trigger"
            tinv = trig[0]
            if tinv.n in seen_inv:
                return "C15:method-capture-duplicated-for-one-invocation"
            seen_inv.add(tinv.n)
            if pi <= ts_idx:
                return "C15:capture-sent-before-the-program-moved-on"
            if pi > tinv.end:
                return "C15:capture-sent-after-its-invocation-ended"
            caps = [x for x in s.watches if x.source == "CAPTURE"]
            if len(caps) != 1 or caps[0].result is None or caps[0].result.vid not in s.var_lookup:
                return "C15:capture-result-missing"
            v = s.var_lookup[caps[0].result.vid]
            kind, val = tinv.outcome
            if kind == "return":
                if caps[0].expression != "return" or v.value != str(val):
                    return "C15:captured-value-is-not-this-invocation's-result"
            else:
                if caps[0].expression != "exception":
                    return "C15:captured-value-is-not-this-invocation's-result"
    if 3 in tpset:
        n_l1 = sum(1 for e in ev if e[0] == "line" and len(e) > 3 and e[3] == 1)
        got = pushes.get("cap-l", [])
        if len(got) != n_l1:
            return "C15:line-capture-snapshot-" + ("lost" if len(got) < n_l1 else "duplicated")
        l1 = [(i, e[1]) for i, e in enumerate(ev) if e[0] == "line" and len(e) > 3 and e[3] == 1]
        for (pi, pinv, s) in got:
            ts_idx = w.idx_of.get(s.ts_nanos, -1)
            trig = [inv for (i, inv) in l1 if i == ts_idx]
            if len(trig) != 1:
                return "C15:line-capture-unknown-trigger"
            if pi <= ts_idx:
                return "C15:capture-sent-before-the-program-moved-on"
            if pi > trig[0].end:
                return "C15:capture-sent-after-its-invocation-ended"
    return ""


def _setup(tpset):
    import deep.thread_local as tl
    P = plugins()
    log = []
    w = World(plugin_list=[P["RecSpanProcessor"](log)])
    w.log = log
    w.clock0 = 1000
    w.tick = 0          # one global, strictly increasing clock: one instant per delivered event
    w.idx_of = {}       # instant -> index of the event inside its thread's stream
    ftm = FakeThreadingMod()
    tl.threading = ftm
    w.install(_triggers(tpset))
    return w, ftm


def _store_empty():
    from deep.thread_local import ThreadLocal
    st = ThreadLocal._ThreadLocal__store
    return all((not v) for v in st.values())


def stream(tp: int, c1: int, c2: int, c3: int, c4: int, c5: int, k: int) -> str:
    """
    One thread, a stream of up to 5 choices (line 1 / line 2 / call f / call g / return / raise-caught / raise-propagate)
    over functions root, f, g with a subset of {method span on f, line span on f.py#1, method-capture snapshot on f,
    line-capture snapshot on f.py#1}: every opening is completed exactly once, after it, within its invocation; captures
    carry that invocation's result; nothing stays pending when the thread's work ends.
    PRE: 0 <= tp <= 7 and 0 <= c1 <= 6 and 0 <= c2 <= 6 and 0 <= c3 <= 6 and 0 <= c4 <= 6 and 0 <= c5 <= 6 and 1 <= k <= 5
    PRE: k >= 5 or c5 == 0
    PRE: k >= 4 or c4 == 0
    PRE: k >= 3 or c3 == 0
    PRE: k >= 2 or c2 == 0
    POST: _ == ""
    """
    world.begin_path()
    v = [world.realize(x) for x in (tp, c1, c2, c3, c4, c5, k)]
    tpset = TP_SETS[v[0]]
    choices = v[1:6][:v[6]]
    w, ftm = _setup(tpset)
    try:
        ev, invs, opens, closes, pushes = _run_stream(w, ftm, 1, choices, w.clock0)
    except BaseException as e:  # noqa
        if world.is_engine_exc(e):
            raise
        world.reached()
        return "C15:handler-raised:" + type(e).__name__
    world.reached()
    r = _monitor(tpset, ev, invs, opens, closes, pushes, w)
    if r:
        return r
    if not _store_empty():
        return "C15:work-left-pending-when-the-thread-ended"
    return ""


def two_threads(tp: int, c1: int, c2: int, c3: int, d1: int, d2: int, d3: int, reuse: bool) -> str:
    """
    Two threads run one stream each, one after the other; the second may REUSE the first one's ident (CPython does):
    the second thread inherits nothing, and its own work is completed in it.
    PRE: 0 <= tp <= 7 and 0 <= c1 <= 6 and 0 <= c2 <= 6 and 0 <= c3 <= 6 and 0 <= d1 <= 6 and 0 <= d2 <= 6 and 0 <= d3 <= 6
    POST: _ == ""
    """
    world.begin_path()
    v = [world.realize(x) for x in (tp, c1, c2, c3, d1, d2, d3, reuse)]
    tpset = TP_SETS[v[0]]
    w, ftm = _setup(tpset)
    try:
        r1 = _run_stream(w, ftm, 1, v[1:4], w.clock0)
        n_log, n_push = len(w.log), len(w.push.snapshots)
        w.clock0 = 5000
        r2 = _run_stream(w, ftm, 1 if v[7] else 2, v[4:7], w.clock0)
    except BaseException as e:  # noqa
        if world.is_engine_exc(e):
            raise
        world.reached()
        return "C15:handler-raised:" + type(e).__name__
    world.reached()
    w.clock0 = 1000
    r = _monitor(tpset, *r1, w)
    if r:
        return r + ":thread1"
    w.clock0 = 5000
    r = _monitor(tpset, *r2, w)
    if r:
        return r + ":thread2"
    if not _store_empty():
        return "C15:work-left-pending-when-the-thread-ended"
    return ""


def _mut_method_end_accepts_line():
    from deep.processor.context.callback_context import CallbackContext
    CallbackContext._CallbackContext__check_at_method_end = lambda self, event: event in ("exception", "return", "line")


def _deliver(w, ftm, ident, ev, lo, hi, clock0, rec):
    """Deliver events ev[lo:hi] of one thread's stream; recordings use the thread's own event indexes."""
    ftm.cur = FakeThread(ident)
    opens, closes, pushes = rec
    for i in range(lo, hi):
        e = ev[i]
        kind, inv, arg = e[0], e[1], e[2]
        inv.frame.f_lineno = e[3] if len(e) > 3 else inv.frame.f_lineno
        w.tick += 1
        w.clock.t = w.tick
        w.idx_of[w.tick] = i
        n_log, n_push = len(w.log), len(w.push.snapshots)
        w.event(inv.frame, kind, arg)
        for entry in w.log[n_log:]:
            (opens if entry[0] == "open" else closes).setdefault((entry[3], entry[2]), []).append((i, inv))
        for s_ in w.push.snapshots[n_push:]:
            pushes.setdefault(s_.tracepoint.id, []).append((i, inv, s_))


def interleaved(tp: int, a1: int, a2: int, a3: int, b1: int, b2: int, ka: int) -> str:
    """
    Two LIVE threads: thread A runs its first ka events, then thread B runs its whole stream, then A finishes. Each
    thread's deferred work is completed in it, once, within its invocation - whatever the other thread does meanwhile.
    PRE: tp in (0, 1, 2, 3) and 0 <= a1 <= 6 and 0 <= a2 <= 6 and 0 <= a3 <= 6 and 0 <= b1 <= 6 and 0 <= b2 <= 6 and 1 <= ka <= 4
    POST: _ == ""
    """
    world.begin_path()
    v = [world.realize(x) for x in (tp, a1, a2, a3, b1, b2, ka)]
    tpset = TP_SETS[v[0]]
    w, ftm = _setup(tpset)
    eva, invsa = expand(v[1:4])
    evb, invsb = expand(v[4:6])
    ka_ = min(v[6], len(eva))
    ra, rb = ({}, {}, {}), ({}, {}, {})
    try:
        _deliver(w, ftm, 1, eva, 0, ka_, 1000, ra)
        _deliver(w, ftm, 2, evb, 0, len(evb), 5000, rb)
        _deliver(w, ftm, 1, eva, ka_, len(eva), 1000, ra)
    except BaseException as e:  # noqa
        if world.is_engine_exc(e):
            raise
        world.reached()
        return "C15:handler-raised:" + type(e).__name__
    world.reached()
    w.clock0 = 1000
    r = _monitor(tpset, eva, invsa, ra[0], ra[1], ra[2], w)
    if r:
        return r + ":threadA"
    w.clock0 = 5000
    r = _monitor(tpset, evb, invsb, rb[0], rb[1], rb[2], w)
    if r:
        return r + ":threadB"
    if not _store_empty():
        return "C15:work-left-pending-when-the-thread-ended"
    return ""


def deep_nesting(n: int, tp: int, exc: bool) -> str:
    """
    n different functions f0..f(n-1) nested in one another, each with its own method span (or method capture): every one
    of the n openings is completed exactly once when ITS function ends, however deep the nesting.
    PRE: 1 <= n <= 24 and 0 <= tp <= 1
    POST: _ == ""
    """
    world.begin_path()
    from deep.api.tracepoint.trigger import LocationAction, FunctionLocation, Trigger, Location
    n, tp, exc = world.realize(n), world.realize(tp), world.realize(exc)
    P = plugins()
    log = []
    w = World(plugin_list=[P["RecSpanProcessor"](log)])
    import deep.thread_local as tl
    tl.threading = FakeThreadingMod()
    trigs = []
    lim = {"fire_count": -1, "fire_period": 0}
    for i in range(n):
        if tp == 0:
            act = LocationAction("span-%d" % i, None, dict(lim, span="method"), LocationAction.ActionType.Span)
        else:
            act = LocationAction("cap-%d" % i, None, dict(lim, stage="method_capture", watches=[], frame_type="no_frame"),
                                 LocationAction.ActionType.Snapshot)
        trigs.append(Trigger(FunctionLocation("f.py", "f%d" % i, Location.Position.START), [act]))
    w.install(trigs)
    frames = []
    prev = None
    t = 0
    for i in range(n):
        fr = FakeFrame("/app/f.py", "f%d" % i, 10 + i, {"i": i}, {}, prev)
        frames.append(fr)
        prev = fr
        t += 1
        w.clock.t = t
        w.event(fr, "call", None)
    for i in reversed(range(n)):
        t += 1
        w.clock.t = t
        if exc and i == n - 1:
            w.event(frames[i], "exception", (ValueError, ValueError("x"), None))
            t += 1
            w.clock.t = t
        w.event(frames[i], "return", None if (exc and i == n - 1) else "v%d" % i)
    world.reached()
    if tp == 0:
        opens = [e for e in log if e[0] == "open"]
        closes = [e for e in log if e[0] == "close"]
        if len(opens) != n:
            return "C15:deep:span-not-opened-per-function"
        for i in range(n):
            c = [e for e in closes if e[3] == "span-%d" % i]
            if len(c) != 1:
                return "C15:deep:span-%s" % ("never-closed" if not c else "closed-twice")
    else:
        ids = sorted(s.tracepoint.id for s in w.push.snapshots)
        if ids != sorted("cap-%d" % i for i in range(n)):
            return "C15:deep:capture-" + ("lost" if len(ids) < n else "duplicated")
    if not _store_empty():
        return "C15:work-left-pending-when-the-thread-ended"
    return ""


def _mut_capture_wrong_value():
    from deep.processor.context.snapshot_action import DeferredSnapshotActionCallback
    orig = DeferredSnapshotActionCallback.process

    def process(self, ctx, event, frame, arg):
        return orig(self, ctx, event, frame, "stale" if event == "return" else arg)
    DeferredSnapshotActionCallback.process = process


def _mut_never_close():
    from deep.processor.context.span_action import SpanActionCallback
    SpanActionCallback.process = lambda self, ctx, event, frame, arg: False


def _mut_never_clear():
    from deep.thread_local import ThreadLocal
    ThreadLocal.clear = lambda self: None


def _mut_close_twice():
    from deep.processor.context.span_action import SpanActionCallback

    def process(self, ctx, event, frame, arg):
        for span in self._SpanActionCallback__spans:
            span.close()
            if event == "exception":
                span.close()
        return False
    SpanActionCallback.process = process


MUTANTS = {"never_clear": _mut_never_clear, "close_twice": _mut_close_twice, "capture_wrong_value": _mut_capture_wrong_value,
           "never_close": _mut_never_close}

CONDITIONS = [
    dict(fn="stream", cubes={"quick": ["tp == %d and k == 3 and c1 == %d" % (t, c) for t in range(8) for c in range(7)] +
                                      ["tp == %d and k == 4 and c1 == 2 and c2 == %d" % (t, c) for t in (0, 2, 4) for c in range(7)],
                             "thorough": ["tp == %d and k == 4 and c1 == %d" % (t, c) for t in range(8) for c in range(7)] +
                                         ["tp == %d and k == 5 and c1 == 2 and c2 == %d" % (t, d) for t in (0, 1, 2, 3, 4) for d in range(7)]},
         twins=["reach", "mutant:never_close@tp == 1 and k == 3 and c1 == 2", "mutant:close_twice@tp == 0 and k == 3 and c1 == 2",
                "mutant:capture_wrong_value@tp == 2 and k == 3 and c1 == 2"],
         bounds="quick: all streams of 3 choices and the streams of 4 choices starting with call-f for 3 tracepoint subsets; thorough: all streams of 4 choices and the streams of 5 starting with call-f; "
                "7 choice kinds (line 1/2, call f/g, return, raise-caught, raise-propagate), 3 functions, 8 tracepoint subsets; one thread"),
    dict(fn="interleaved", cubes={"quick": ["tp == %d and a1 == 2 and a3 == 4 and ka == %d" % (t, k) for t in (0, 1, 2, 3) for k in (2, 3)],
                                  "thorough": ["tp == %d and a1 == %d and ka == %d" % (t, a, k) for t in (0, 1, 2, 3) for a in range(7) for k in (1, 3)]},
         twins=["reach"], bounds="two live threads: A (3 choices; quick: call f, any, return) interrupted after ka events by B's whole stream (2 choices); single-tracepoint subsets"),
    dict(fn="deep_nesting", cubes=["tp == %d and n %s" % (t, r) for t in (0, 1) for r in ("<= 8", "> 8 and n <= 16", "> 16")], twins=["reach"],
         bounds="1..24 nested functions, each with its own method span / method capture; innermost returns or raises"),
    dict(fn="two_threads", cubes={"quick": ["tp == %d and c1 == 2 and c2 == %d and c3 == 4 and d3 == 4" % (t, c) for t in (0, 1, 2, 4) for c in (0, 2)],
                                  "thorough": ["tp == %d and c1 == %d and c2 == %d and c3 == 4" % (t, c, d) for t in (0, 1, 2, 3, 6) for c in (0, 2) for d in range(7)]},
         twins=["reach", "mutant:never_close@tp == 0 and c1 == 2 and c2 == 0 and c3 == 4 and d3 == 4"],
         bounds="two sequential threads, 3 choices each (quick: first thread starts call f then line 1 | call f, both third choices = return), second thread with a fresh or a reused ident"),
]
