"""C16 Log tracepoints emit the template with every field evaluated in place."""
from vlib import world
from vlib.world import World, FakeFrame, plugins

PROPERTY = "C16"
FUNCTIONS = ["LogActionContext._process_action/process_log (FormatExtractor.get_field)", "LogActionResult.process",
             "SnapshotActionContext._process_action (log_msg branch)", "ActionContext.eval_watch",
             "TriggerContext.evaluate_expression/__exit__", "build_trigger/build_log_action/build_snapshot_action"]
STUBS = ["FakeFrame", "RecPush", "recording TracepointLogger plugin", "uuid -> counter (ctx-N)", "logging -> no-op"]
OUTSIDE = ["fields containing ':' / '!' / braces (format-spec syntax)", "malformed templates (unbalanced braces)",
           "template literals come from a pool: the template reaches the C parser _string.formatter_parser"]


class Obj:
    def __init__(self):
        self.attr = "AV"

    def __str__(self):
        return "OBJ"


LITS = ["a", "b%s:!", " é"]
BRACES = ["{{", "}}"]
FIELDS = ["name", "obj.attr", "seq[0]", "d['k']", "len(name)", "nope", "1/0"]
SEGS = LITS + BRACES + ["{%s}" % f for f in FIELDS]      # 12 segment kinds


def _locals():
    return {"name": "bob", "obj": Obj(), "seq": [5, 6], "d": {"k": "dv"}}


def _ref_render(seg_ids, loc):
    """Independent renderer: literals as they are, doubled braces -> single, field -> str(value) or the error text."""
    out, fields = "", []
    for i in seg_ids:
        if i < len(LITS):
            out += LITS[i]
        elif i < len(LITS) + 2:
            out += "{" if i == len(LITS) else "}"
        else:
            f = FIELDS[i - len(LITS) - 2]
            fields.append(f)
            try:
                out += str(eval(f, {}, dict(loc)))
            except Exception as e:
                out += str(e)
    return "[deep] " + out, fields


def _run(seg_ids, mode, hits):
    from deep.api.tracepoint.trigger import build_trigger
    P = plugins()
    log = []
    w = World(plugin_list=[P["RecLogger"](log)])
    template = "".join(SEGS[i] for i in seg_ids)
    args = {"fire_count": "2", "fire_period": "0", "log_msg": template}
    if mode == 0:
        args["snapshot"] = "no_collect"
    cfg_watches = ["name", "obj.attr", "seq"] if mode == 1 else []     # the collecting tracepoint also has its own watches
    w.install([build_trigger("tp1", "f.py", 7, args, cfg_watches, [])])
    for h in range(hits):
        w.clock.t = 10 + h
        w.event(FakeFrame("/app/f.py", "f", 7, _locals()), "line", None)
    world.reached()
    want_msg, fields = _ref_render(seg_ids, _locals())
    n = min(hits, 2)
    calls = [e for e in log if e[0] == "log"]
    if len(calls) != n:
        return "C16:message-count"
    for k, e in enumerate(calls):
        if e[1] != want_msg:
            if not e[1].startswith("[deep] "):
                return "C16:prefix-missing"
            return "C16:message-text-wrong"
        if e[2] != "tp1":
            return "C16:logger-label:tracepoint-id-not-in-its-place"
        if e[3] != "ctx-%d" % (k + 1):
            return "C16:logger-label:context-id-not-in-its-place"
    if mode == 1:
        if len(w.push.snapshots) != n:
            return "C16:snapshot-count"
        for k, s in enumerate(w.push.snapshots):
            if s.log_msg != want_msg:
                return "C16:snapshot-log-msg"
            lw = [x for x in s.watches if x.source == "LOG"]
            if [x.expression for x in lw] != fields:
                return "C16:snapshot-log-watches"
            if [x.expression for x in s.watches if x.source == "WATCH"] != cfg_watches:
                return "C16:snapshot-configured-watches"
            for x in lw:
                if x.result is None and x.error is None:
                    return "C16:snapshot-log-watch-empty"
                if x.result is not None and x.result.vid not in s.var_lookup:
                    return "C16:snapshot-log-watch-dangling"
            if s.attributes.get("context") != "ctx-%d" % (k + 1):
                return "C16:snapshot-context-attribute"
    else:
        if w.push.snapshots:
            return "C16:snapshot-although-no_collect"
    return ""



VFIELDS = ["name", "fa * k", "fb * k", "fa + fb", "seq[0] * 1000", "name * 2", "nope", "[fa, fb]",
           # failing fields whose error TEXT is not simply the first argument of the exception
           "d['zz']", "gone()"]


def _gone():
    raise OSError(2, "gone")


def field_values(i1: int, i2: int, i3: int, nf: int, mv: int = 0) -> str:
    """
    A collecting log tracepoint records one LOG watch result per field, and each resolves - in the snapshot's own table -
    to THAT field's value (type name and text), also when several fields evaluate to short-lived temporaries of the
    same size (floats, big ints, strings, lists), whose memory the interpreter reuses at once.
    PRE: 0 <= i1 <= 9 and 0 <= i2 <= 7 and 0 <= i3 <= 7 and 2 <= nf <= 3 and 0 <= mv <= 3
    PRE: mv == 0 or nf == 2
    POST: _ == ""
    """
    world.begin_path()
    from deep.api.tracepoint.trigger import build_trigger
    i1, i2, i3, nf, mv = [world.realize(x) for x in (i1, i2, i3, nf, mv)]
    fields = [VFIELDS[i] for i in (i1, i2, i3)[:nf]]
    loc = {"name": "bob", "fa": 1.5, "fb": 2.25, "k": 3.0, "seq": [5, 6], "d": {"k": 1}, "gone": _gone}
    w = World()
    template = " ".join("{%s}" % f for f in fields)
    trig = build_trigger("tp1", "f.py", 7, {"fire_count": "1", "fire_period": "0", "log_msg": template}, ["k * k"], [])
    # mv > 0: the tracepoint's variable budget (MAX_VARIABLES 0 / 3 / 6) runs out before / while the fields are reached: the
    # MESSAGE is text and still complete; a field's watch then either resolves to its value or says that the limit was reached
    tight = mv > 0
    if tight:
        for a in trig.actions:
            a.config["MAX_VARIABLES"] = [None, 0, 3, 6][mv]
    w.install([trig])
    w.event(FakeFrame("/app/f.py", "f", 7, loc), "line", None)
    world.reached()
    if len(w.push.snapshots) != 1:
        return "C16:values:snapshot-count"
    s = w.push.snapshots[0]
    lw = [x for x in s.watches if x.source == "LOG"]
    if [x.expression for x in lw] != fields:
        return "C16:values:one-log-watch-per-field"
    texts = []
    for f, x in zip(fields, lw):
        try:
            val = eval(f, {}, dict(loc))
        except Exception as e:
            texts.append(str(e))
            continue
        texts.append(str(val))
        if tight and x.result is None and x.error:
            continue
        if x.result is None or x.result.vid not in s.var_lookup:
            return "C16:values:log-watch-without-a-variable"
        v = s.var_lookup[x.result.vid]
        if v.type != type(val).__name__ or (type(val) is not list and v.value != str(val)):
            return "C16:values:log-watch-points-at-another-value"
    if s.log_msg != "[deep] " + " ".join(texts):
        return "C16:values:message-text"
    ww = [x for x in s.watches if x.source == "WATCH"]
    if tight and len(ww) == 1 and ww[0].result is None and ww[0].error:
        return ""
    if len(ww) != 1 or ww[0].result is None or s.var_lookup[ww[0].result.vid].value != "9.0":
        return "C16:values:configured-watch-points-at-another-value"
    return ""


def builtin_logger(s1: int, s2: int, lit: int) -> str:
    """
    The BUILT-IN tracepoint logger (PythonPlugin) emits the message, whatever characters it contains (a literal '%', a
    field value containing '%s'), labelled with the tracepoint id and the context id.
    PRE: 0 <= s1 <= 11 and 0 <= s2 <= 11 and 0 <= lit <= 3
    POST: _ == ""
    """
    world.begin_path()
    import deep.api.plugin.python as pp
    from deep.api.plugin.python import PythonPlugin
    from deep.api.tracepoint.trigger import build_trigger
    s1, s2, lit = world.realize(s1), world.realize(s2), world.realize(lit)
    extra = ["", " 75%", " %s done", " %(x)s %d"][lit]
    emitted = []

    class Rec:
        @staticmethod
        def info(msg, *args, **kwargs):
            try:
                emitted.append(msg % args if args else msg)
            except Exception as e:            # what python's logging does with a bad format: the record is lost
                emitted.append("<<lost: %s>>" % type(e).__name__)
    real = pp.logging
    pp.logging = Rec
    try:
        w = World(plugin_list=[PythonPlugin(config=None)])
        template = SEGS[s1] + SEGS[s2] + extra
        loc = _locals()
        loc["name"] = "bob%s" if lit == 2 else "bob"
        w.install([build_trigger("tp1", "f.py", 7, {"fire_count": "-1", "fire_period": "0", "snapshot": "no_collect", "log_msg": template}, [], [])])
        w.event(FakeFrame("/app/f.py", "f", 7, loc), "line", None)
    finally:
        pp.logging = real
    world.reached()
    rendered, _ = _ref_render([s1, s2], loc)
    want = rendered + extra
    if len(emitted) != 1:
        return "C16:builtin-logger:message-count"
    if want not in emitted[0]:
        return "C16:builtin-logger:message-lost-or-garbled"
    if "tp1" not in emitted[0] or "ctx-1" not in emitted[0]:
        return "C16:builtin-logger:labels-missing"
    return ""


def render3(s1: int, s2: int, s3: int, n: int, mode: int, hits: int) -> str:
    """
    Templates of up to three segments (literal / doubled brace / field) on a log-only or snapshot+log tracepoint.
    PRE: 0 <= s1 <= 11 and 0 <= s2 <= 11 and 0 <= s3 <= 11 and 0 <= n <= 3 and 0 <= mode <= 1 and 1 <= hits <= 3
    PRE: n == 3 or s3 == 0
    PRE: n >= 2 or s2 == 0
    PRE: n >= 1 or s1 == 0
    POST: _ == ""
    """
    world.begin_path()
    v = [world.realize(x) for x in (s1, s2, s3, n, mode, hits)]
    return _run(v[:3][:v[3]], v[4], v[5])


def render4(s1: int, s2: int, s3: int, s4: int, mode: int) -> str:
    """
    Templates of four segments, one hit.
    PRE: 0 <= s1 <= 11 and 0 <= s2 <= 11 and 0 <= s3 <= 11 and 0 <= s4 <= 11 and 0 <= mode <= 1
    POST: _ == ""
    """
    world.begin_path()
    v = [world.realize(x) for x in (s1, s2, s3, s4, mode)]
    return _run(v[:4], v[4], 1)


def _mut_prefix_dropped():
    import deep.processor.context.log_action as la
    orig = la.LogActionContext.process_log

    def process_log(self, log_msg):
        m, w, v = orig(self, log_msg)
        return m[len("[deep] "):], w, v
    la.LogActionContext.process_log = process_log


def _mut_swapped_ids():
    import deep.processor.context.log_action as la

    def process(self, ctx):
        tl = ctx.config.tracepoint_logger
        if tl:
            tl.log_tracepoint(self.log, ctx.id, self.action.id)
        return None
    la.LogActionResult.process = process


def _mut_error_field_blank():
    from deep.processor.context.action_context import ActionContext
    orig = ActionContext.eval_watch

    def eval_watch(self, watch, source):
        r, v, s = orig(self, watch, source)
        res = self.trigger_context.evaluate_expression(watch)
        if isinstance(res, BaseException):
            return r, v, ""
        return r, v, s
    ActionContext.eval_watch = eval_watch


def _mut_no_keep_alive():
    from deep.processor.variable_set_processor import VariableCacheProvider
    VariableCacheProvider.keep_alive = lambda self, value: None


MUTANTS = {"no_keep_alive": _mut_no_keep_alive, "prefix_dropped": _mut_prefix_dropped, "swapped_ids": _mut_swapped_ids, "error_field_blank": _mut_error_field_blank}

_Q3 = ["n == 3 and hits == 1 and s1 == %d and mode == %d and s3 in (1, 3, 4, 5, 10)" % (a, m) for a in (3, 4, 5, 10) for m in range(2)]
_LE2 = ["n <= 2 and mode == %d and hits == %d and s1 == %d" % (m, h, a) for m in range(2) for h in (1, 3) for a in range(12)]
CONDITIONS = [
    dict(fn="field_values", cubes=["nf == 3 and i1 == %d" % a for a in range(10)] + ["nf == 2 and i1 == %d and mv %s" % (a, m) for a in range(10) for m in ("<= 1", ">= 2")], twins=["reach", "mutant:no_keep_alive@nf == 2 and i1 == 1 and mv <= 1"],
         bounds="templates of 2-3 fields over 10 expressions (a local, 5 producing temporaries: floats, big int, str, list; 3 failing ones incl. KeyError / OSError, whose text is not their first argument) on a collecting tracepoint that also has a configured watch; the tracepoint's variable budget default / 0 / 3 / 6"),
    dict(fn="builtin_logger", cubes=["lit == %d and s1 %s" % (l, r) for l in range(4) for r in ("<= 5", ">= 6")], twins=["reach"],
         bounds="the real PythonPlugin.log_tracepoint (its logging call captured): 12x12 two-segment templates x 4 literal tails containing '%' forms; a field value containing '%s'"),
    dict(fn="render3", cubes={"quick": _LE2 + _Q3,
                              "thorough": _LE2 + ["n == 3 and hits == %d and s1 == %d and s2 == %d and mode == %d" % (h, a, b, m)
                                                  for a in range(12) for b in range(12) for m in range(2) for h in (1,)]},
         twins=["reach@n <= 2 and mode == 1 and hits == 1 and s1 == 5", "mutant:prefix_dropped@n <= 2 and mode == 0 and hits == 1 and s1 == 0",
                "mutant:swapped_ids@n <= 2 and mode == 0 and hits == 1 and s1 == 0",
                "mutant:error_field_blank@n <= 2 and mode == 0 and hits == 1 and s1 == 10"],
         bounds="quick: all templates of 0..2 segments over 12 segment kinds (3 literals incl. %/:/!/non-ASCII, {{, }}, 7 field expressions incl. 2 failing) "
                "x log-only/snapshot+log x 1 or 3 hits (fire_count 2), plus 3-segment templates with first/last segment from {{{,}},{name},{nope},literal}; "
                "thorough: all 3-segment templates"),
    dict(fn="render4", cubes={"quick": [], "thorough": ["s1 == %d and s2 == %d and mode == %d" % (a, b, m) for a in (3, 4, 5, 10) for b in range(12) for m in range(2)]},
         twins=[], bounds="thorough only: 4-segment templates whose first segment is {{, }}, {name} or {nope}; one hit"),
]
