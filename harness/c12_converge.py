"""C12 Installed tracepoints converge to the service's latest configuration."""
import types

from vlib import world
from vlib.stepper import stepify, Sched, SimPool, Deadlock, gen_call

PROPERTY = "C12"
FUNCTIONS = ["LongPoll.poll", "TracepointConfigService.update_new_config/update_no_change/__trigger_update/update_listeners/add_custom/remove_custom",
             "TaskHandler.submit_task (+ completion callback)", "TriggerHandler.new_config / TracepointHandlerUpdateListener.config_change",
             "grpc.convert_response - all statement-stepped from the current source except convert_response/new_config (atomic)"]
STUBS = ["PollConfigStub -> scripted responses (UPDATE / NO_CHANGE / raises / unintelligible), real protobuf messages",
         "ThreadPoolExecutor(2) -> SimPool; scheduler with one (thorough two) pre-emption(s) at SYMBOLIC step indexes",
         "RepeatedTimer._target's `except Exception` is mirrored by the driver thread (one loop iteration per poll)", "uuid -> counter", "logging -> no-op"]
OUTSIDE = ["bytecode-level races inside one statement", "histories longer than 4 operations", "register/unregister from a thread other than the polling one"]

_CACHE = {}
WRAP = {"poll", "update_new_config", "update_no_change", "trigger_update", "submit_task", "add_done_callback", "update_listeners",
        "add_custom", "remove_custom", "submit", "check_open", "result"}


def _build():
    from deep.task import TaskHandler
    from deep.poll.poll import LongPoll
    from deep.config.tracepoint_config import TracepointConfigService as T
    out = {}
    out["submit_task"] = stepify(TaskHandler.submit_task, WRAP, owner=TaskHandler)
    out["check_open"] = stepify(TaskHandler._TaskHandler__check_open, WRAP, owner=TaskHandler)
    out["poll"] = stepify(LongPoll.poll, WRAP, owner=LongPoll)
    for n in ("update_new_config", "update_no_change", "update_listeners", "add_custom", "remove_custom"):
        out[n] = stepify(getattr(T, n), WRAP, owner=T)
    out["trigger_update"] = stepify(T._TracepointConfigService__trigger_update, WRAP, owner=T)
    return out


def _stepped():
    if "v" not in _CACHE:
        _CACHE["v"] = _build()
    return _CACHE["v"]


def _pb_tp(tp_id, line):
    from deepproto.proto.tracepoint.v1.tracepoint_pb2 import TracePointConfig
    return TracePointConfig(ID=tp_id, path="f.py", line_number=line, args={"fire_count": "-1"}, watches=[], metrics=[])


CONFIGS = [("hA", [("A1", 7)]), ("hB", [("B1", 7), ("B2", 8)]), ("hC", [])]
# operations: 0..2 poll->UPDATE(config i)  3 poll->NO_CHANGE  4 poll raises  5 poll->unintelligible  6 register  7 unregister(first live)
#             8 poll->UPDATE with a new hash whose content cannot be converted (a metric of a type this agent does not know)
N_OPS = 9


def _run(ops, preempt, picks):
    import threading
    import deep.poll.poll as pp
    from deep.task import TaskHandler
    from deep.poll.poll import LongPoll
    from deepproto.proto.poll.v1.poll_pb2 import PollResponse, ResponseType
    from vlib.world import World
    g = _stepped()
    from vlib.stepper import reset_locks
    reset_locks()
    sched = Sched(preempt=preempt, picks=picks)
    w = World()
    th = TaskHandler.__new__(TaskHandler)
    th._pool, th._pending, th._job_id, th._lock, th._open = None, {}, 0, threading.Lock(), True
    th._accept_lock = threading.Lock()
    th.submit_task = types.MethodType(g["submit_task"], th)
    setattr(th, "_TaskHandler__check_open", types.MethodType(g["check_open"], th))
    tps = w.tps
    for n in ("update_new_config", "update_no_change", "update_listeners", "add_custom", "remove_custom"):
        setattr(tps, n, types.MethodType(g[n], tps))
    setattr(tps, "_TracepointConfigService__trigger_update", types.MethodType(g["trigger_update"], tps))
    tps.set_task_handler(th)
    requests = []
    script = []

    class Stub:
        def __init__(self, channel):
            pass

        def poll(self, request, metadata=None):
            requests.append(request.current_hash)
            r = script.pop(0)
            if r == "raise":
                raise RuntimeError("service unavailable")
            return r

    class FakeGrpc:
        channel = None

        def metadata(self):
            return []
    real_stub, real_time = pp.PollConfigStub, pp.time_ns
    pp.PollConfigStub, pp.time_ns = Stub, (lambda: 1)
    lp = LongPoll(w.config, FakeGrpc())
    lp.poll = types.MethodType(g["poll"], lp)
    model = {"hash": "", "service": [], "custom": []}
    handles = []
    errors = []

    def driver():
        for op in ops:
            if op <= 2:
                h, tpl = CONFIGS[op]
                script.append(PollResponse(ts_nanos=5, current_hash=h, response_type=ResponseType.UPDATE,
                                           response=[_pb_tp(i, ln) for (i, ln) in tpl]))
                model["hash"], model["service"] = h, [i for (i, _) in tpl]
            elif op == 3:
                script.append(PollResponse(ts_nanos=6, current_hash=model["hash"], response_type=ResponseType.NO_CHANGE))
            elif op == 4:
                script.append("raise")
            elif op == 5:
                script.append(object())
            elif op == 8:
                from deepproto.proto.tracepoint.v1.tracepoint_pb2 import TracePointConfig, Metric
                bad = TracePointConfig(ID="X1", path="f.py", line_number=7, args={"fire_count": "-1"}, watches=[],
                                       metrics=[Metric(name="m", type=99)])
                # nothing of it can be installed, so nothing changes - in particular the agent must not start reporting hX
                script.append(PollResponse(ts_nanos=7, current_hash="hX", response_type=ResponseType.UPDATE, response=[_pb_tp("X0", 7), bad]))
            if op <= 5 or op == 8:
                try:                                   # RepeatedTimer._target: one loop iteration survives Exception
                    yield from gen_call(lp.poll)
                except Exception:
                    pass
            elif op == 6:
                try:
                    hd = yield from gen_call(tps.add_custom, "f.py", 9, {"fire_count": "-1"}, ["w%d" % len(handles)], [])
                    handles.append(hd)
                    model["custom"].append(hd)
                except Exception as e:
                    errors.append("register-raised:" + type(e).__name__)
            else:
                if model["custom"]:
                    hd = model["custom"].pop(0)
                    yield from gen_call(tps.remove_custom, hd)
        # one more poll to observe the hash the agent reports
        script.append(PollResponse(ts_nanos=9, current_hash=model["hash"], response_type=ResponseType.NO_CHANGE))
        try:
            yield from gen_call(lp.poll)
        except Exception as e:
            errors.append("final-poll-raised:" + type(e).__name__)
    sched.spawn("driver", driver())
    th._pool = SimPool(sched, workers=2)
    try:
        sched.run()
    except Deadlock:
        return "C12:deadlock"
    finally:
        pp.PollConfigStub, pp.time_ns = real_stub, real_time
    world.reached()
    if errors:
        return "C12:" + errors[0]
    installed = sorted(a.id for t in w.handler._tp_config for a in t.actions)
    want = sorted(model["service"] + model["custom"])
    reported = requests[-1] if requests else None
    if (reported or "") != model["hash"]:
        return "C12:reported-hash-is-not-the-latest-configuration's"
    if installed != want:
        svc = sorted(i for i in installed if not i.startswith("tp-"))
        if svc != sorted(model["service"]):
            return "C12:older-configuration-installed-while-the-latest-hash-is-reported"
        return "C12:registered-tracepoints-not-converged"
    return ""


class _InlineTasks:
    class F:
        def add_done_callback(self, cb):
            cb(self)

        def exception(self):
            return None

    def submit_task(self, task, *args):
        task(*args)
        return _InlineTasks.F()


POLL_OPS = [0, 1, 2, 3, 4, 5, 8]


def timer_loop(a1: int, a2: int, a3: int, a4: int, n: int) -> str:
    """
    The REAL polling loop (RepeatedTimer._target around the real LongPoll.poll, updates applied inline): polls that fail
    in any way (service unavailable, unintelligible answer, unconvertible UPDATE) neither end the loop nor change what is
    installed / reported; every scheduled poll is made and the last UPDATE wins.
    PRE: 0 <= a1 <= 6 and 0 <= a2 <= 6 and 0 <= a3 <= 6 and 0 <= a4 <= 6 and 1 <= n <= 4
    PRE: n >= 4 or a4 == 0
    PRE: n >= 3 or a3 == 0
    PRE: n >= 2 or a2 == 0
    POST: _ == ""
    """
    world.begin_path()
    import deep.poll.poll as pp
    import deep.utils as du
    from deep.poll.poll import LongPoll
    from deep.utils import RepeatedTimer
    from deepproto.proto.poll.v1.poll_pb2 import PollResponse, ResponseType
    from deepproto.proto.tracepoint.v1.tracepoint_pb2 import TracePointConfig, Metric
    from vlib.world import World
    v = [world.realize(x) for x in (a1, a2, a3, a4, n)]
    ops = [POLL_OPS[i] for i in v[:4][:v[4]]]
    w = World()
    w.tps.set_task_handler(_InlineTasks())
    requests, script = [], []
    model = {"hash": "", "service": []}
    for op in ops:
        if op <= 2:
            h, tpl = CONFIGS[op]
            script.append(PollResponse(ts_nanos=5, current_hash=h, response_type=ResponseType.UPDATE, response=[_pb_tp(i, ln) for (i, ln) in tpl]))
            model["hash"], model["service"] = h, [i for (i, _) in tpl]
        elif op == 3:
            script.append("nochange")
        elif op == 4:
            script.append("raise")
        elif op == 5:
            script.append(object())
        else:
            bad = TracePointConfig(ID="X1", path="f.py", line_number=7, args={"fire_count": "-1"}, watches=[], metrics=[Metric(name="m", type=99)])
            script.append(PollResponse(ts_nanos=7, current_hash="hX", response_type=ResponseType.UPDATE, response=[_pb_tp("X0", 7), bad]))
    script.append("nochange")       # one more poll to observe the reported hash
    total = len(script)

    class Stub:
        def __init__(self, channel):
            pass

        def poll(self, request, metadata=None):
            requests.append(request.current_hash)
            r = script.pop(0)
            if r == "raise":
                raise RuntimeError("service unavailable")
            if r == "nochange":
                return PollResponse(ts_nanos=6, current_hash=request.current_hash, response_type=ResponseType.NO_CHANGE)
            return r

    class FakeGrpc:
        channel = None

        def metadata(self):
            return []

    class ScriptedEvent:
        """Event.wait(timeout) of the timer: 'not stopped' once per scheduled poll, then 'stopped'."""
        def __init__(self, rounds):
            self.rounds = rounds

        def wait(self, timeout=None):
            self.rounds -= 1
            return self.rounds < 0

        def set(self):
            self.rounds = -1
    real_stub, real_time = pp.PollConfigStub, pp.time_ns
    pp.PollConfigStub, pp.time_ns = Stub, (lambda: 1)
    try:
        lp = LongPoll(w.config, FakeGrpc())
        timer = RepeatedTimer.__new__(RepeatedTimer)
        timer.name, timer.interval, timer.function, timer.args, timer.kwargs = "poll", 10, lp.poll, (), {}
        timer.start_ts = 0
        timer.event = ScriptedEvent(total)
        real_du_time = du.time
        du.time = types.SimpleNamespace(time=lambda: 3.0)
        try:
            timer._target()            # the timer thread's body, run to its end
        except Exception as e:
            world.reached()
            return "C12:timer:polling-loop-ended-by-" + type(e).__name__
        finally:
            du.time = real_du_time
    finally:
        pp.PollConfigStub, pp.time_ns = real_stub, real_time
    world.reached()
    if len(requests) != total:
        return "C12:timer:scheduled-poll-not-made"
    installed = sorted(a.id for t in w.handler._tp_config for a in t.actions)
    if requests[-1] != model["hash"]:
        return "C12:timer:reported-hash-is-not-the-latest-configuration's"
    if installed != sorted(model["service"]):
        return "C12:timer:installed-set-is-not-the-latest-configuration"
    return ""


def converge(o1: int, o2: int, o3: int, o4: int, n: int, p1: int, t1: int, k1: int, k2: int) -> str:
    """
    Histories of up to 4 operations (poll -> UPDATE to one of three configurations / NO_CHANGE / raises / unintelligible,
    register, unregister), applied by the two pool workers under a schedule with one pre-emption at a SYMBOLIC step:
    at quiescence the installed set is the last UPDATE plus the live registrations, the reported hash is the last
    UPDATE's, and failed polls change nothing.
    PRE: 0 <= o1 <= 8 and 0 <= o2 <= 8 and 0 <= o3 <= 8 and 0 <= o4 <= 8 and 1 <= n <= 4
    PRE: 0 <= p1 <= 100 and 0 <= t1 <= 2 and 0 <= k1 <= 1 and 0 <= k2 <= 1
    PRE: n >= 4 or o4 == 0
    PRE: n >= 3 or o3 == 0
    PRE: n >= 2 or o2 == 0
    POST: _ == ""
    """
    world.begin_path()
    v = [world.realize(x) for x in (o1, o2, o3, o4, n, t1, k1, k2)]
    return _run(v[:4][:v[4]], [(p1, v[5])], [v[6], v[7]])


def converge2(o1: int, o2: int, p1: int, d: int, k1: int = 0) -> str:
    """
    Two operations with TWO pre-emptions: to worker 1 at a SYMBOLIC step, and back to the driver d steps later - i.e. the
    second operation arrives while a worker is in the middle of applying the first.
    PRE: 0 <= o1 <= 8 and 0 <= o2 <= 8 and 0 <= p1 <= 70 and 1 <= d <= 14 and 0 <= k1 <= 1
    POST: _ == ""
    """
    world.begin_path()
    o1, o2, k1 = world.realize(o1), world.realize(o2), world.realize(k1)
    return _run([o1, o2], [(p1, 1), (p1 + d, 0)], [k1, 0])


def _updates(ops):
    return sum(1 for o in ops if o <= 2)


def _mut_hash_not_stored():
    from deep.config.tracepoint_config import TracepointConfigService as T

    def update_new_config(self, ts, new_hash, new_config):
        old_hash = self._current_hash
        old_config = self._tracepoint_config
        self._last_update = ts
        self._tracepoint_config = new_config
        self._TracepointConfigService__trigger_update(old_hash, old_config)
    T.update_new_config = update_new_config
    _CACHE.clear()
    _stepped()


def _mut_no_change_clears():
    from deep.config.tracepoint_config import TracepointConfigService as T

    def update_no_change(self, ts):
        self._last_update = ts
        self._current_hash = None
    T.update_no_change = update_no_change
    _CACHE.clear()
    _stepped()


def _mut_custom_dropped_on_update():
    from deep.config.tracepoint_config import TracepointConfigService as T

    def update_listeners(self, ts, old_hash, current_hash, old_config, new_config):
        for listeners in self._listeners.copy():
            try:
                listeners.config_change(ts, old_hash, current_hash, old_config, new_config if old_hash is not None or not self._custom else new_config + self._custom)
            except Exception:
                pass
    T.update_listeners = update_listeners
    _CACHE.clear()
    _stepped()


def _mut_captured_config():
    from deep.config.tracepoint_config import TracepointConfigService as T

    def update_listeners(self, ts, old_hash, current_hash, old_config, new_config):
        listeners_copy = self._listeners.copy()
        for listeners in listeners_copy:
            try:
                listeners.config_change(ts, old_hash, current_hash, old_config, new_config + self._custom)
            except Exception:
                pass
    T.update_listeners = update_listeners
    _CACHE.clear()
    _stepped()


def _mut_timer_dies():
    from deep.utils import RepeatedTimer

    def _target(self):
        while not self.event.wait(self._time):
            self.function(*self.args, **self.kwargs)
    RepeatedTimer._target = _target


MUTANTS = {"timer_dies": _mut_timer_dies, "captured_config": _mut_captured_config, "hash_not_stored": _mut_hash_not_stored, "no_change_clears": _mut_no_change_clears, "custom_dropped_on_update": _mut_custom_dropped_on_update}

if not _CACHE:
    try:
        _stepped()
    except Exception:
        pass

CONDITIONS = [
    dict(fn="timer_loop", cubes=["n == %d and a1 == %d" % (k, a) for k in (1, 2, 3) for a in range(7)] + ["n == 4 and a1 == %d and a2 == %d" % (a, b) for a in (0, 4, 6) for b in (1, 4, 5, 6)],
         twins=["reach", "mutant:timer_dies@n == 2 and a1 == 4"],
         bounds="the real RepeatedTimer._target loop (scripted Event) around the real LongPoll.poll, updates applied inline: every history of 1-3 polls over 7 answers "
                "(UPDATE x3, NO_CHANGE, raises, unintelligible, unconvertible UPDATE), 12 first pairs of histories of 4"),
    dict(fn="converge2", cubes={"quick": ["o1 == %d and o2 == %d and %s" % (a, b, r) for (a, b) in ((0, 1), (0, 6)) for r in ("k1 == 0 and p1 <= 16 and d <= 10", "k1 == 0 and 16 < p1 <= 32 and d <= 10", "k1 == 0 and 32 < p1 <= 48 and d <= 10")] +
                                         ["o1 == 0 and o2 == 1 and k1 == 1 and %s and d <= 6" % r for r in ("16 < p1 <= 32", "32 < p1 <= 48")],
                                "thorough": ["o1 == %d and o2 == %d and %s" % (a, b, r) for a in (0, 6) for b in (0, 1, 3, 6, 7) for r in ("k1 == 0 and p1 <= 20", "k1 == 0 and 20 < p1 <= 34", "k1 == 0 and 34 < p1 <= 48", "k1 == 0 and p1 > 48")] +
                                            ["o1 == %d and o2 == %d and k1 == 1 and %s" % (a, b, r) for a in (0, 6) for b in (0, 1, 6) for r in ("p1 <= 24", "24 < p1 <= 44", "p1 > 44")]},
         twins=["reach"], timeout={"quick": 420, "thorough": 900},
         bounds="two operations (quick: UPDATE,UPDATE and UPDATE,register) with two pre-emptions: to worker 1 at a symbolic step (quick <= 48, thorough <= 70) and back to the driver 1-10 (thorough 1-14) steps later; at the next forced switch worker 1 or (k1 = 1: UPDATE,UPDATE, pre-emption at 17..48, back within 6 steps; more in thorough) worker 2 continues"),
    dict(fn="converge", cubes={"quick": ["n == 2 and o1 == %d and o2 %s and t1 == %d and k1 == 0 and k2 == 0" % (a, b, t) for a in (0, 3, 4, 5, 6, 7, 8) for b in ("<= 3", ">= 4") for t in (1,)] +
                                        ["n == 3 and o1 == %d and o2 == %d and o3 == %d and t1 == 1 and k1 == 0 and k2 == 0" % h3 for h3 in ((0, 1, 2), (0, 1, 6), (6, 0, 1), (6, 0, 7), (0, 4, 1), (0, 5, 1), (0, 8, 3), (8, 6, 0))],
                               "thorough": ["n == 3 and o1 == %d and o2 == %d and o3 %s and t1 == 1 and k1 == 0 and k2 == 0" % (a, b, c) for a in (0, 6, 8) for b in range(9) for c in ("<= 3", ">= 4")] +
                                           ["n == 2 and o1 == %d and t1 == %d and k1 == 0 and k2 == 0" % (a, t) for a in range(9) for t in (0, 2)]},
         twins=["reach", "mutant:hash_not_stored@n == 2 and o1 == 0 and o2 <= 3 and t1 == 1 and k1 == 0 and k2 == 0", "mutant:no_change_clears@n == 2 and o1 == 0 and o2 <= 3 and t1 == 1 and k1 == 0 and k2 == 0",
                "mutant:captured_config@n == 2 and o1 == 0 and o2 == 2 and t1 == 1 and k1 == 0 and k2 == 0"],
         timeout={"quick": 420, "thorough": 900},
         bounds="quick: the histories of 2 operations whose first is UPDATE(A) / NO_CHANGE / failing poll / unintelligible / unconvertible UPDATE / register / unregister, and 8 histories of 3 (several updates / registrations in flight) over 9 operation kinds, pre-emption to worker 1; thorough: the histories of 3 that start with UPDATE / register / an unconvertible UPDATE (pre-emption to worker 1) and of 2 (pre-emption to the driver / worker 2); one pre-emption at a SYMBOLIC step "
                "index (0..100); forced switches by picks"),
]
