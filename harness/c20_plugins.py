"""C20 Plugins are optional: ordered, skipped when inactive, isolated when faulty."""
from vlib import world
from vlib.world import World, FakeFrame, plugins

PROPERTY = "C20"
FUNCTIONS = ["plugin.load_plugins/__plugin_generator", "Plugin.is_active/order", "Deep.start (resource loop)", "Deep.shutdown (plugin loop)",
             "DeferredSnapshotActionResult._decorate_snapshot", "LogActionResult.process", "SpanActionContext._process_action",
             "SpanActionCallback.process", "MetricActionContext._process_action", "TriggerContext.__exit__", "ConfigService plugin generators"]
STUBS = ["custom plugin classes defined in this harness module (importable by dotted name)", "DEEP_PLUGINS (built-ins) emptied for the loader condition",
         "Deep built around real ConfigService with no-op trigger handler / grpc / poll start", "FakeFrame", "RecPush", "logging -> no-op"]
OUTSIDE = ["plugins failing with BaseException subclasses", "a plugin whose order() / is_active() raise"]

from deep.api.plugin import Plugin   # noqa: E402

SPEC = {}     # class name -> dict(ctor_raises, order)


class _Base(Plugin):
    def __init__(self, config=None):
        super().__init__(config=config)
        sp = SPEC.get(type(self).__name__, {})
        if sp.get("ctor_raises"):
            raise RuntimeError("cannot construct " + type(self).__name__)
        self._order = sp.get("order", 0)

    def order(self):
        return self._order


class PlugA(_Base):
    pass


class PlugB(_Base):
    pass


class PlugC(_Base):
    pass


ACTIVE_TEXT = [None, "True", "False", "false", "0", "yes", False, True]     # the last two: bools given in code (is_active then fails)


def loader(ka: int, kb: int, kc: int, oa: int, ob: int, oc: int, aa: int, ab: int) -> str:
    """
    load_plugins over three custom plugins, each importable / not importable / failing to construct, switched on or
    off by configuration text, with UNBOUNDED symbolic order values (ties included): the result is exactly the
    importable, constructible, active ones, stably sorted by order.
    PRE: 0 <= ka <= 2 and 0 <= kb <= 2 and 0 <= kc <= 2 and 0 <= aa <= 7 and 0 <= ab <= 7
    POST: _ == ""
    """
    world.begin_path()
    import deep.api.plugin as pl
    from deep.config import ConfigService
    from deep.config.tracepoint_config import TracepointConfigService
    ka, kb, kc, aa, ab = [world.realize(x) for x in (ka, kb, kc, aa, ab)]
    saved = pl.DEEP_PLUGINS
    pl.DEEP_PLUGINS = []
    try:
        names, want, optional = [], [], []
        cfg = {"APP_ROOT": "/app"}
        for (cls, kind, order, act) in (("PlugA", ka, oa, aa), ("PlugB", kb, ob, ab), ("PlugC", kc, oc, 0)):
            SPEC[cls] = {"ctor_raises": kind == 2, "order": order}
            names.append("harness.c20_plugins." + (cls if kind != 1 else cls + "Missing"))
            if ACTIVE_TEXT[act] is not None:
                cfg["PLUGIN_" + cls.upper()] = ACTIVE_TEXT[act]
            if isinstance(ACTIVE_TEXT[act], bool):
                active = None       # is_active() fails on a bool: that plugin may be skipped or loaded, the OTHERS must load
            else:
                active = ACTIVE_TEXT[act] is None or ACTIVE_TEXT[act].lower() in ("yes", "true", "t", "1", "y")
            if kind == 0 and active is None:
                optional.append(cls)
            elif kind == 0 and active:
                want.append((cls, order))
        config = ConfigService(cfg, tracepoints=TracepointConfigService())
        try:
            got = pl.load_plugins(config, names)
        except Exception as e:
            world.reached()
            return "C20:loader-raised:" + type(e).__name__
        world.reached()
        got = [p for p in got if type(p).__name__ not in optional]
        want_sorted = sorted(want, key=lambda p: p[1] or 0)     # sorted() is stable
        if [type(p).__name__ for p in got] != [n for n, _ in want_sorted]:
            if sorted(type(p).__name__ for p in got) != sorted(n for n, _ in want):
                return "C20:loader:wrong-set-loaded"
            return "C20:loader:wrong-order"
    finally:
        pl.DEEP_PLUGINS = saved
    return ""


ROLES = ["resource", "decorate", "log", "create_span", "close", "metric", "shutdown"]


def isolation(role: int, who: int, hits: int, fm: int = 0) -> str:
    """
    Two plugins of every role; plugin `who` (0 first / 1 second / 2 both) fails in callback `role` on every call: the agent
    still starts, the healthy plugin's callbacks still run with the right arguments, the snapshot is delivered with the
    remaining decorations, spans of healthy processors are still closed, every plugin's shutdown is attempted.
    PRE: 0 <= role <= 6 and 0 <= who <= 2 and 1 <= hits <= 2 and 0 <= fm <= 2
    PRE: fm == 0 or role in (0, 1)
    POST: _ == ""
    """
    world.begin_path()
    import deep.api.deep as dd
    from deep.api.deep import Deep
    from deep.api.tracepoint.trigger import build_trigger
    from deep.api.tracepoint.tracepoint_config import MetricDefinition
    role, who, hits, fm = [world.realize(x) for x in (role, who, hits, fm)]
    P = plugins()
    logs = [[], []]
    sets = []
    for i in range(2):
        sets.append(dict(res=P["RecResource"]({"r%d" % i: "v%d" % i}), dec=P["RecDecorator"]({"d%d" % i: "x%d" % i}),
                         log=P["RecLogger"](logs[i]), span=P["RecSpanProcessor"](logs[i]), met=P["RecMetricProcessor"](logs[i])))
    bad = [0, 1] if who == 2 else [who]
    err = RuntimeError("plugin failure")
    downs = {}

    def mk_shutdown(name, fail):
        def shutdown():
            downs[name] = downs.get(name, 0) + 1
            if fail:
                raise err
        return shutdown
    for i in range(2):
        st = sets[i]
        f = i in bad
        # fm 0: the callback raises; 1 / 2: it answers with something of the wrong kind (a dict / a string) instead
        if f and ROLES[role] == "resource":
            if fm == 0:
                st["res"].fail = err
            else:
                st["res"].garbage = {"team": "payments"} if fm == 1 else "payments"
        if f and ROLES[role] == "decorate":
            if fm == 0:
                st["dec"].fail = err
            else:
                st["dec"].garbage = {"team": "payments"} if fm == 1 else "payments"
        if f and ROLES[role] == "log":
            st["log"].fail = err
        if f and ROLES[role] == "create_span":
            st["span"].fail_create = err
        if f and ROLES[role] == "close":
            st["span"].fail_close = err
        if f and ROLES[role] == "metric":
            st["met"].fail = err
        for k, p in st.items():
            p.shutdown = mk_shutdown("%s%d" % (k, i), f and ROLES[role] == "shutdown")
    plist = []
    for i in range(2):
        plist += [sets[i][k] for k in ("res", "dec", "log", "span", "met")]
    w = World()

    class Nop:
        def start(self):
            pass

        def shutdown(self):
            pass

        def flush(self):
            pass
    d = Deep.__new__(Deep)
    d.started = False
    d.config = w.config
    d.trigger_handler = d.grpc = d.poll = d.task_handler = Nop()
    real_lp = dd.load_plugins
    dd.load_plugins = lambda config, custom=None: list(plist)
    try:
        try:
            d.start()
        except Exception as e:
            world.reached()
            return "C20:start-raised:" + type(e).__name__
    finally:
        dd.load_plugins = real_lp
    if not d.started:
        return "C20:agent-did-not-start"
    ra = dict(w.config.resource.attributes)
    for i in range(2):
        healthy = not (i in bad and ROLES[role] == "resource")
        if healthy and ra.get("r%d" % i) != "v%d" % i:
            return "C20:healthy-resource-provider-lost"
    # ---- one tracepoint with snapshot + log + metric + span, driven `hits` times, then the next line closes the span
    args = {"fire_count": "-1", "fire_period": "0", "log_msg": "m", "span": "line"}
    w.install([build_trigger("tp1", "f.py", 7, args, [], [MetricDefinition("m1", "COUNTER")])])
    try:
        for h in range(hits):
            w.clock.t = 10 + h
            w.event(FakeFrame("/app/f.py", "f", 7, {"x": 1}), "line", None)
            w.event(FakeFrame("/app/f.py", "f", 8, {"x": 1}), "line", None)
    except BaseException as e:  # noqa
        if world.is_engine_exc(e):
            raise
        world.reached()
        return "C20:failure-raised-into-the-application:" + type(e).__name__
    world.reached()
    if len(w.push.snapshots) != hits:
        return "C20:snapshot-not-delivered"
    for s in w.push.snapshots:
        at = dict(s.attributes)
        for i in range(2):
            healthy = not (i in bad and ROLES[role] == "decorate")
            if healthy and at.get("d%d" % i) != "x%d" % i:
                return "C20:healthy-decoration-lost"
        if at.get("tracepoint") != "tp1":
            return "C20:snapshot-attributes-lost"
    # the tracepoint logger is the FIRST logger plugin only (single-valued role)
    lg = [e for e in logs[0] if e[0] == "log"]
    if len(lg) != hits:
        return "C20:log-call-count"
    for i in range(2):
        healthy_create = not (i in bad and ROLES[role] == "create_span")
        opens = [e for e in logs[i] if e[0] == "open"]
        closes = [e for e in logs[i] if e[0] == "close"]
        mets = [e for e in logs[i] if e[0] == "counter"]
        if len(opens) != hits:
            return "C20:span-processor-not-asked(create_span skipped after another plugin failed)"
        if healthy_create and len(closes) != hits:
            return "C20:span-of-healthy-processor-not-closed"
        if len(mets) != hits:
            return "C20:metric-processor-skipped-after-another-plugin-failed"
        for e in mets:
            if (e[1], e[3], e[6]) != ("m1", "deep", 1):
                return "C20:metric-arguments"
    try:
        d.shutdown()
    except Exception:
        pass
    for i in range(2):
        for k in ("res", "dec", "log", "span", "met"):
            if downs.get("%s%d" % (k, i), 0) != 1:
                return "C20:plugin-shutdown-not-attempted"
    if d.started:
        return "C20:still-started-after-shutdown"
    return ""


def _mut_sort_desc():
    import deep.api.plugin as pl
    orig = pl.load_plugins

    def load_plugins(config, custom=None):
        r = orig(config, custom)
        r.sort(key=lambda p: -(p.order() or 0))
        return r
    pl.load_plugins = load_plugins


def _mut_ignore_active():
    from deep.api.plugin import Plugin
    Plugin.is_active = lambda self: True


def _mut_decorators_unguarded():
    from deep.processor.context.snapshot_action import DeferredSnapshotActionResult
    from deep.api.attributes import BoundedAttributes

    def _decorate_snapshot(self, ctx):
        attributes = BoundedAttributes(attributes={'context': ctx.id, 'tracepoint': self.action_context.location_action.tracepoint.id},
                                       immutable=False)
        for decorator in ctx.config.snapshot_decorators:
            decorate = decorator.decorate(self.snapshot.id_str, self.action_context)
            if decorate is not None:
                attributes.merge_in(decorate)
        self.snapshot.attributes.merge_in(attributes)
        return self.snapshot
    DeferredSnapshotActionResult._decorate_snapshot = _decorate_snapshot


MUTANTS = {"sort_desc": _mut_sort_desc, "ignore_active": _mut_ignore_active, "decorators_unguarded": _mut_decorators_unguarded}

CONDITIONS = [
    dict(fn="loader", cubes=["ka == %d and kb == %d and kc == %d" % (a, b, c) for a in range(3) for b in range(3) for c in range(3)],
         twins=["reach", "mutant:sort_desc@ka == 0 and kb == 0 and kc == 0", "mutant:ignore_active@ka == 0 and kb == 0 and kc == 0"],
         bounds="3 custom plugins x {importable, not importable, constructor raises} x 8 activation settings incl. bools given in code, on which is_active() itself fails (2 plugins) x UNBOUNDED symbolic order values"),
    dict(fn="isolation", cubes=["role == %d and who == %d" % (r, w) for r in range(7) for w in range(3)],
         twins=["reach", "mutant:decorators_unguarded@role == 1 and who == 0"],
         bounds="7 callback roles x failing plugin first/second/both x 1-2 hits; 2 plugins of each of 5 plugin types; resource providers / decorators fail by raising or by answering with a dict / a string"),
]
