"""C08 Wire fidelity: the service receives every snapshot field intact, with auth."""
from vlib import world

PROPERTY = "C08"
FUNCTIONS = ["push.convert_snapshot and every __convert_* helper", "grpc.convert_value/__value_as_list/__value_as_dict/convert_resource",
             "PushService._push_task", "LongPoll.poll (request construction)", "GRPCService.metadata/_build_metadata",
             "AuthProvider.get_provider", "BasicAuthProvider.provide"]
STUBS = ["EventSnapshot assembled by the harness from the real model classes", "real protobuf message classes (C encoder) on realised values",
         "SnapshotServiceStub / PollConfigStub -> recording fakes", "uuid/random/time_ns -> counters", "logging -> no-op"]
OUTSIDE = ["the gRPC transport itself", "numeric fields come from boundary pools (protobuf is a C boundary: a wide symbolic would be enumerated)",
           "text that is not valid UTF-8 (recorded under C06)"]

NUMS = [0, 1, 7, 2 ** 31 - 1]
BIG = [0, 1, 2 ** 31, 2 ** 63 - 1]
TEXTS = ["tok", "", "ünï ☃", "a\nb\t\"q\"", "x" * 40,
         # text protobuf cannot carry (lone surrogates; the low ones are what surrogateescape yields for undecodable file names)
         "a\ud800b", "caf\udce9.py", "\udc80\ud800"]
# the string fields the COLLECTOR fills from the application (the others come from the service / the configuration)
COLLECTED = ("child", "orig", "type", "value", "file", "short", "method", "var", "cls", "tfile", "expr", "wname", "error", "log")


def _encodable(ch):
    try:
        ch.encode("utf-8")
        return True
    except UnicodeEncodeError:
        return False


def _same_text(got, want):
    """Equal, or - where `want` holds code points UTF-8 cannot carry - equal with each of those replaced by ONE encodable character."""
    if got == want:
        return True
    if not isinstance(got, str) or not isinstance(want, str) or len(got) != len(want):
        return False
    for g, w_ in zip(got, want):
        if _encodable(w_):
            if g != w_:
                return False
        elif not _encodable(g):
            return False
    return True



def flatten(msg, prefix=""):
    """{path: value} of every SET field of a real protobuf message, driven by its descriptors."""
    out = {}
    for fd, val in msg.ListFields():
        name = prefix + fd.name
        if fd.message_type is not None and fd.message_type.GetOptions().map_entry:
            for k in val:
                v = val[k]
                if hasattr(v, "ListFields"):
                    out.update(flatten(v, "%s[%s]." % (name, k)))
                    if not v.ListFields():
                        out["%s[%s]" % (name, k)] = "<empty-message>"
                else:
                    out["%s[%s]" % (name, k)] = v
        elif getattr(fd, "is_repeated", False) or (hasattr(fd, "label") and fd.label == 3):
            for i, v in enumerate(val):
                if hasattr(v, "ListFields"):
                    sub = flatten(v, "%s[%d]." % (name, i))
                    out.update(sub)
                    if not sub:
                        out["%s[%d]" % (name, i)] = "<empty-message>"
                else:
                    out["%s[%d]" % (name, i)] = v
        elif fd.message_type is not None:
            sub = flatten(val, name + ".")
            out.update(sub)
            if not sub:
                out[name] = "<empty-message>"
        else:
            out[name] = val
    return out


def exp_value(prefix, v):
    """Expected AnyValue flattening of a python attribute value."""
    out = {}
    if isinstance(v, bool):
        out[prefix + "bool_value"] = v
    elif isinstance(v, str):
        out[prefix + "string_value"] = v
    elif isinstance(v, int):
        out[prefix + "int_value"] = v
    elif isinstance(v, float):
        out[prefix + "double_value"] = v
    elif isinstance(v, (tuple, list)):
        if len(v) == 0:
            out[prefix + "array_value"] = "<empty-message>"
        for i, e in enumerate(v):
            out.update(exp_value("%sarray_value.values[%d]." % (prefix, i), e))
    return out


def exp_vid(prefix, r):
    out = {}
    if r.vid != "":
        out[prefix + "ID"] = r.vid
    if r.name != "":
        out[prefix + "name"] = r.name
    for i, m in enumerate(r.modifiers):
        out["%smodifiers[%d]" % (prefix, i)] = m
    if r.original_name is not None:
        out[prefix + "original_name"] = r.original_name
    return out


def expected(s):
    """{path: value} the message must carry for EventSnapshot s (protobuf default values are 'not set' in ListFields)."""
    out = {}
    out["ID"] = s.id.to_bytes(16, "big")
    tp = s.tracepoint
    for k, v in (("tracepoint.ID", tp.id), ("tracepoint.path", tp.path), ("tracepoint.line_number", tp.line_no)):
        if v not in ("", 0):
            out[k] = v
    for k, v in tp.args.items():
        out["tracepoint.args[%s]" % k] = v
    for i, wt in enumerate(tp.watches):
        out["tracepoint.watches[%d]" % i] = wt
    if not [k for k in out if k.startswith("tracepoint.")]:
        out["tracepoint"] = "<empty-message>"
    for vid, v in s.var_lookup.items():
        p = "var_lookup[%s]." % vid
        n = 0
        for k, val in (("type", v.type), ("value", v.value), ("hash", v.hash)):
            if val != "":
                out[p + k] = val
                n += 1
        for i, c in enumerate(v.children):
            sub = exp_vid("%schildren[%d]." % (p, i), c)
            out.update(sub)
            n += 1
            if not sub:
                out["%schildren[%d]" % (p, i)] = "<empty-message>"
        if v.truncated is not None:
            out[p + "truncated"] = v.truncated
            n += 1
        if n == 0:
            out["var_lookup[%s]" % vid] = "<empty-message>"
    if s.ts_nanos != 0:
        out["ts_nanos"] = s.ts_nanos
    for i, f in enumerate(s.frames):
        p = "frames[%d]." % i
        n = 0
        for k, val, dflt in (("file_name", f.file_name, ""), ("method_name", f.method_name, ""), ("line_number", f.line_number, 0)):
            if val != dflt:
                out[p + k] = val
                n += 1
        for k, val in (("class_name", f.class_name), ("is_async", f.is_async), ("column_number", f.column_number),
                       ("transpiled_file_name", f.transpiled_file_name), ("transpiled_line_number", f.transpiled_line_number),
                       ("transpiled_column_number", f.transpiled_column_number), ("app_frame", f.app_frame), ("short_path", f.short_path)):
            if val is not None:
                out[p + k] = val
                n += 1
        for j, r in enumerate(f.variables):
            sub = exp_vid("%svariables[%d]." % (p, j), r)
            out.update(sub)
            n += 1
            if not sub:
                out["%svariables[%d]" % (p, j)] = "<empty-message>"
        if n == 0:
            out["frames[%d]" % i] = "<empty-message>"
    for i, wr in enumerate(s.watches):
        p = "watches[%d]." % i
        n = 0
        if wr.expression != "":
            out[p + "expression"] = wr.expression
            n += 1
        if wr.result is not None:
            sub = exp_vid(p + "good_result.", wr.result)
            out.update(sub)
            n += 1
            if not sub:
                out[p + "good_result"] = "<empty-message>"
        if wr.error is not None:
            out[p + "error_result"] = wr.error
            n += 1
        src = {"WATCH": 0, "LOG": 1, "METRIC": 2, "CAPTURE": 3}[wr.source]
        if src != 0:
            out[p + "source"] = src
            n += 1
        if n == 0:
            out["watches[%d]" % i] = "<empty-message>"
    for grp, attrs in (("attributes", s.attributes), ("resource", s.resource.attributes)):
        for i, (k, v) in enumerate(attrs.items()):
            p = "%s[%d]." % (grp, i)
            if k != "":
                out[p + "key"] = k
            sub = exp_value(p + "value.", v)
            out.update(sub)
            if not sub:
                out[p + "value"] = "<empty-message>"
    if s.duration_nanos != 0:
        out["duration_nanos"] = s.duration_nanos
    if s.log_msg is not None:
        out["log_msg"] = s.log_msg
    return out


ATTR_VALUES = [True, 5, 2.5, "sv", ("a", "b"), (1, 2, 3), (True, False), (), [1, 2], False, 0, ""]


class _StrSub(str):
    """A str subclass (markup-safe strings, StrEnum members are such)."""


class _FloatSub(float):
    """A float subclass (numpy.float64 is one)."""


def _subclass_values():
    import http
    return [http.HTTPStatus.OK, _StrSub("md"), _FloatSub(1.5)]


def build_snapshot(nf, nv, nw, na, opt, num, big, txt, which, src):
    """Assemble an EventSnapshot from the real model classes; every string is a distinct token except field `which`."""
    from deep.api.tracepoint.eventsnapshot import EventSnapshot, StackFrame, Variable, VariableId, WatchResult
    from deep.api.tracepoint.tracepoint_config import TracePointConfig
    from deep.api.resource import Resource
    world.install_determinism(world.FixedClock(5))
    tokens = {"n": 0}

    def tok(name):
        tokens["n"] += 1
        if tokens["n"] - 1 == which and (txt < 5 or name in COLLECTED):
            return TEXTS[txt]
        return "%s#%d" % (name, tokens["n"])
    optional = bool(opt)
    tp = TracePointConfig(tok("tp_id"), tok("path"), NUMS[num] if num else -1, {tok("argk"): tok("argv"), "fire_count": "1"},
                          [tok("w0"), tok("w1")][:nw], [])
    var_lookup = {}
    for i in range(nv):
        children = [VariableId(str((i + j + 1) % max(nv, 1) + 1), tok("child"), ["private"] if j == 0 else [],
                               tok("orig") if (optional and j == 0) else None) for j in range(i % 3)]
        var_lookup[str(i + 1)] = Variable(tok("type"), tok("value"), tok("hash"), children, bool((i + opt) % 2))
    frames = []
    for i in range(nf):
        frames.append(StackFrame(tok("file"), tok("short"), tok("method"), NUMS[(num + i) % 4],
                                 [VariableId(str(j + 1), tok("var"), [], None) for j in range(min(nv, 2))],
                                 tok("cls") if optional else None, is_async=bool(i % 2), column_number=NUMS[(num + 1) % 4],
                                 transpiled_file_name=tok("tfile") if optional else None, transpiled_line_number=NUMS[(num + 2) % 4],
                                 transpiled_column_number=NUMS[(num + 3) % 4], app_frame=bool((i + 1) % 2)))
    res = Resource({tok("rk"): "rv", "service.name": tok("svc"), "seq": ATTR_VALUES[(na + 4) % len(ATTR_VALUES)]})
    s = EventSnapshot(tp, BIG[big], res, frames, var_lookup)
    sources = ["WATCH", "LOG", "METRIC", "CAPTURE"]
    for i in range(nw):
        if (i + opt) % 2 == 0:
            s.add_watch_result(WatchResult(sources[(src + i) % 4], tok("expr"), VariableId(str(i + 1), tok("wname"), [], None)))
        else:
            s.add_watch_result(WatchResult(sources[(src + i) % 4], tok("expr"), None, tok("error")))
    for i in range(na):
        value = ATTR_VALUES[(na + i + src) % len(ATTR_VALUES)]
        if optional and i == 0:
            value = _subclass_values()[num % 3]         # instances of SUBCLASSES of int / str / float are values of that kind
        s.attributes[tok("ak")] = value
    s._duration_nanos = BIG[(big + 1) % 4]
    if optional:
        s.log_msg = tok("log")
    return s


def convert(nf: int, nv: int, nw: int, na: int, opt: int, num: int, big: int, txt: int, which: int, src: int) -> str:
    """
    Field-by-field equality between a harness-assembled snapshot and the real protobuf message produced by
    convert_snapshot (walked through the real descriptors), then a serialise / parse round trip.
    PRE: 0 <= nf <= 2 and 0 <= nv <= 3 and 0 <= nw <= 2 and 0 <= na <= 3 and 0 <= opt <= 1 and 0 <= num <= 3 and 0 <= big <= 3
    PRE: 0 <= txt <= 7 and -1 <= which <= 30 and 0 <= src <= 3
    POST: _ == ""
    """
    world.begin_path()
    from deep.push import convert_snapshot
    from deepproto.proto.tracepoint.v1.tracepoint_pb2 import Snapshot
    v = [world.realize(x) for x in (nf, nv, nw, na, opt, num, big, txt, which, src)]
    s = build_snapshot(*v)
    msg = convert_snapshot(s)
    world.reached()
    if msg is None:
        return "C08:snapshot-not-converted(dropped)"
    got, want = flatten(msg), expected(s)
    if txt >= 5:
        got = {k: (want[k] if k in want and _same_text(g_, want[k]) else g_) for k, g_ in got.items()}
    if got != want:
        missing = sorted(k for k in want if k not in got)
        extra = sorted(k for k in got if k not in want)
        diff = sorted(k for k in want if k in got and got[k] != want[k])
        if missing:
            fam = missing[0].split("[")[0].split(".")[0] + ":" + missing[0].split(".")[-1].split("[")[0]
            return "C08:field-lost:" + fam
        if diff:
            return "C08:field-altered:" + diff[0].split(".")[-1].split("[")[0]
        return "C08:field-invented:" + extra[0].split(".")[-1].split("[")[0]
    data = msg.SerializeToString()
    back = flatten(Snapshot.FromString(data))
    if txt >= 5:
        back = {k: (want[k] if k in want and _same_text(g_, want[k]) else g_) for k, g_ in back.items()}
    if back != want:
        return "C08:does-not-survive-serialisation"
    return ""


class _CustomProvider:
    def __init__(self, config):
        self.config = config

    def provide(self):
        return [("x-api-key", "k1"), ("x-tenant", "t")]


class _FlakyProvider:
    """Fails on its first `fail_first` calls (e.g. a token endpoint that is briefly down), then answers."""
    calls = 0
    fail_first = 1

    def __init__(self, config):
        self.config = config

    def provide(self):
        _FlakyProvider.calls += 1
        if _FlakyProvider.calls <= _FlakyProvider.fail_first:
            raise RuntimeError("token endpoint unavailable")
        return [("authorization", "Bearer tok")]


PROVIDERS = [None, "", "deep.api.auth.BasicAuthProvider", "harness.c08_wire._CustomProvider", "harness.c08_wire._FlakyProvider"]


def auth(pi: int, cred: int, npoll: int, nsend: int) -> str:
    """
    Every poll and every snapshot request carries exactly the metadata supplied by the configured auth provider.
    PRE: 0 <= pi <= 4 and 0 <= cred <= 3 and 0 <= npoll <= 3 and 0 <= nsend <= 3
    POST: _ == ""
    """
    world.begin_path()
    import base64
    import deep.poll.poll as pp
    import deep.push.push_service as ps
    from deep.poll.poll import LongPoll
    from deep.push.push_service import PushService
    from deep.grpc.grpc_service import GRPCService
    from deep.config import ConfigService
    from deep.config.tracepoint_config import TracepointConfigService
    from deep.api.resource import Resource
    pi, cred, npoll, nsend = [world.realize(x) for x in (pi, cred, npoll, nsend)]
    cfg = {"APP_ROOT": "/app"}
    if PROVIDERS[pi] is not None:
        cfg["SERVICE_AUTH_PROVIDER"] = PROVIDERS[pi]
    user, pw = [("u", "p"), ("ü:ser", "p w"), ("u", None), (None, None)][cred]
    if user is not None:
        cfg["SERVICE_USERNAME"] = user
    if pw is not None:
        cfg["SERVICE_PASSWORD"] = pw
    config = ConfigService(cfg, tracepoints=TracepointConfigService())
    config.resource = Resource({"service.name": "svc"})
    grpc = GRPCService(config)
    seen = []

    class PollStub:
        def __init__(self, channel):
            pass

        def poll(self, request, metadata=None):
            seen.append(("poll", metadata))
            from deepproto.proto.poll.v1.poll_pb2 import PollResponse, ResponseType
            return PollResponse(ts_nanos=1, response_type=ResponseType.NO_CHANGE)

    class SendStub:
        def __init__(self, channel):
            pass

        def send(self, request, metadata=None):
            seen.append(("send", metadata))
    rp, rs, rt = pp.PollConfigStub, ps.SnapshotServiceStub, pp.time_ns
    pp.PollConfigStub, ps.SnapshotServiceStub, pp.time_ns = PollStub, SendStub, (lambda: 1)
    _FlakyProvider.calls = 0
    _FlakyProvider.fail_first = 1 + (cred % 2)
    failed = 0
    try:
        lp = LongPoll(config, grpc)
        push = PushService(grpc, None)
        for i in range(max(npoll, nsend)):
            for (do, fn) in ((i < npoll, lp.poll), (i < nsend, lambda: push._push_task(build_snapshot(1, 1, 0, 0, 0, 0, 0, 0, -1, 0)))):
                if not do:
                    continue
                try:
                    fn()
                except Exception as e:
                    if pi != 4:
                        world.reached()
                        return "C08:auth:request-failed:" + type(e).__name__
                    failed += 1      # the provider failed: the request must NOT have been sent without its metadata
    finally:
        pp.PollConfigStub, ps.SnapshotServiceStub, pp.time_ns = rp, rs, rt
    world.reached()
    if PROVIDERS[pi] in (None, ""):
        want = []
    elif pi == 2:
        if user is not None and pw is not None:
            want = [("authorization", "Basic%20" + base64.b64encode((user + ":" + pw).encode("utf-8")).decode("utf-8"))]
        else:
            want = []
    elif pi == 3:
        want = [("x-api-key", "k1"), ("x-tenant", "t")]
    else:
        want = [("authorization", "Bearer tok")]
    if len(seen) != npoll + nsend - failed:
        return "C08:auth:request-count"
    if pi == 4 and failed != min(_FlakyProvider.fail_first, npoll + nsend):
        return "C08:auth:provider-failure-not-retried-or-request-sent-anyway"
    for (kind, md) in seen:
        if list(md or []) != want:
            return "C08:auth:%s-request-metadata" % kind
    return ""


def _mut_drop_app_frame():
    import deep.push as p
    from deepproto.proto.tracepoint.v1.tracepoint_pb2 import StackFrame

    def conv(frame):
        return StackFrame(file_name=frame.file_name, short_path=frame.short_path, method_name=frame.method_name,
                          line_number=frame.line_number, class_name=frame.class_name, is_async=frame.is_async,
                          column_number=frame.column_number, variables=[p.__dict__["__convert_variable_id"](v) for v in frame.variables],
                          transpiled_file_name=frame.transpiled_file_name, transpiled_line_number=frame.transpiled_line_number,
                          transpiled_column_number=frame.transpiled_column_number)
    p.__dict__["__convert_frame"] = conv


def _mut_swap_type_value():
    import deep.push as p
    from deepproto.proto.tracepoint.v1.tracepoint_pb2 import Variable

    def conv(variable):
        return Variable(type=variable.value, value=variable.type, hash=variable.hash,
                        children=[p.__dict__["__convert_variable_id"](c) for c in variable.children], truncated=variable.truncated)
    p.__dict__["__convert_variable"] = conv


def _mut_tuple_dropped():
    import deep.grpc as g
    import deep.push as p
    from deepproto.proto.common.v1.common_pb2 import AnyValue

    def convert_value(value):
        if isinstance(value, bool):
            return AnyValue(bool_value=value)
        if isinstance(value, str):
            return AnyValue(string_value=value)
        if isinstance(value, int):
            return AnyValue(int_value=value)
        if isinstance(value, float):
            return AnyValue(double_value=value)
        return None
    g.convert_value = convert_value
    p.convert_value = convert_value


def _mut_metadata_only_on_poll():
    import deep.push.push_service as ps

    def _push_task(self, snapshot):
        from deep.push import convert_snapshot
        converted = convert_snapshot(snapshot)
        if converted is None:
            return
        ps.SnapshotServiceStub(self.grpc.channel).send(converted, metadata=[])
    ps.PushService._push_task = _push_task


MUTANTS = {"drop_app_frame": _mut_drop_app_frame, "swap_type_value": _mut_swap_type_value, "tuple_dropped": _mut_tuple_dropped,
           "metadata_only_on_poll": _mut_metadata_only_on_poll}

CONDITIONS = [
    dict(fn="convert", cubes={"quick": ["nf == %d and nv == %d and opt == %d and which == -1 and txt == 0 and big == num and src in (0, 3)" % (f, v, o) for f in range(3) for v in (0, 2, 3) for o in range(2)] +
                                       ["nf == 1 and nv == 2 and nw == 2 and na == 2 and opt == 1 and num == 1 and big == 1 and src == 0 and txt == %d and which %s" % (t, r)
                                        for t in (1, 2, 3, 4, 5, 6, 7) for r in ("<= 15", ">= 16")],
                              "thorough": ["nf == %d and nv == %d and opt == %d and nw == %d and src == %d and which == -1 and txt == 0" % (f, v, o, w, sr) for f in range(3) for v in range(4) for o in range(2) for w in range(3) for sr in range(4)] +
                                          ["nf == %d and nv == 2 and nw == 2 and na == 2 and opt == 1 and num == 1 and big == 1 and src == 0 and txt == %d and which %s" % (f, t, r)
                                           for f in (1, 2) for t in (1, 2, 3, 4, 5, 6, 7) for r in ("<= 15", ">= 16")]},
         twins=["reach", "mutant:drop_app_frame@nf == 1 and nv == 0 and opt == 0 and which == -1 and txt == 0 and big == num and src in (0, 3)",
                "mutant:swap_type_value@nf == 0 and nv == 2 and opt == 0 and which == -1 and txt == 0 and big == num and src in (0, 3)",
                "mutant:tuple_dropped@nf == 0 and nv == 0 and opt == 0 and which == -1 and txt == 0 and big == num and src in (0, 3)"],
         bounds="0-2 frames, 0-3 table entries with 0-2 children, 0-2 watches (good / error, 4 sources), 0-3 attributes over 12 value shapes (scalars, tuples, list, empty) plus instances of int / str / float subclasses, "
                "optional fields present / absent, numeric fields from boundary pools (incl. 2^31, 2^63-1, tracepoint line -1), every string a distinct token; one string field at a time "
                "replaced by '', non-ASCII, control characters or a long text, and - in the fields the collector fills from the application - text with lone high / low surrogates "
                "(expected: every other character kept, each unencodable one replaced by one encodable character); real protobuf classes + serialise/parse round trip"),
    dict(fn="auth", cubes=["pi == %d and npoll == %d" % (p, n) for p in range(5) for n in range(4)], twins=["reach", "mutant:metadata_only_on_poll@pi == 2 and npoll == 1"],
         bounds="5 provider configurations (absent, '', Basic, custom, one that fails on its first 1-2 calls) x 4 credential settings x 0-3 polls x 0-3 sends"),
]
