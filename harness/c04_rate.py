"""C04 Rate limiting: fire_count, fire_period and the time window are never exceeded (and permitted hits collect)."""
from vlib import world
from vlib.world import World, FakeFrame

PROPERTY = "C04"
FUNCTIONS = ["TriggerHandler.trace_call", "ActionContext.can_trigger/process/__exit__",
             "LocationAction.can_trigger/record_triggered/__get_int/fire_count/fire_period",
             "TracepointWindow.in_window", "TracepointExecutionStats.fire", "build_trigger/build_snapshot_action"]
STUBS = ["time_ns -> scripted symbolic instants (one per trace event)", "FakeFrame", "RecPush (records snapshots)",
         "uuid/random -> counters", "logging -> no-op"]


def _ref_allowed(fc, fp, ws, we, n, last, t):
    if not (fc == -1 or n < fc):
        return False
    if not ((ws == 0 or ws <= t) and (we == 0 or t <= we)):
        return False
    if last != 0 and t - last < fp * 1000000:
        return False
    return True


def _effects(w):
    return len(w.push.snapshots) + len([e for e in getattr(w, "log", []) if e[0] in ("log", "counter", "open")])


def _drive(w, action_trigger, times):
    """Deliver one matching line event per instant; return the list of hit indexes on which the action was performed."""
    w.install([action_trigger])
    fired = []
    for i, t in enumerate(times):
        w.clock.t = t
        before = _effects(w)
        frame = FakeFrame("/app/f.py", "fn", 7, {"x": 1})
        w.event(frame, "line", None)
        got = _effects(w) - before
        if got > 1:
            return None
        if got == 1:
            fired.append(i)
    return fired


def _ref(fc, fp, ws, we, times, n=0, last=0):
    fired = []
    for i, t in enumerate(times):
        if _ref_allowed(fc, fp, ws, we, n, last, t):
            fired.append(i)
            n += 1
            last = t
    return fired, n, last


def seq_built(fc: int, fp: int, t1: int, d2: int, d3: int, d4: int, k: int) -> str:
    """
    Sequential hits on a tracepoint produced by the real build_trigger; fire_count / fire_period symbolic ints.
    PRE: t1 > 0 and d2 >= 0 and d3 >= 0 and d4 >= 0
    PRE: 1 <= k <= 4
    POST: _ == ""
    """
    world.begin_path()
    from deep.api.tracepoint.trigger import build_trigger
    w = World()
    trig = build_trigger("tp1", "f.py", 7, {"fire_count": fc, "fire_period": fp}, [], [])
    times = [t1, t1 + d2, t1 + d2 + d3, t1 + d2 + d3 + d4][:world.realize(k)]
    fired = _drive(w, trig, times)
    world.reached()
    want, _, _ = _ref(fc, fp, 0, 0, times)
    if fired is None:
        return "C04:double-collection-on-one-hit"
    if fired != want:
        if len(fired) > len(want):
            return "C04:limit-exceeded"
        if len(fired) < len(want):
            return "C04:permitted-hit-did-not-collect"
        return "C04:wrong-hits-collected"
    return ""



class _InlineTasks:
    class F:
        def add_done_callback(self, cb):
            cb(self)

        def exception(self):
            return None

    def submit_task(self, task, *args):
        task(*args)
        return _InlineTasks.F()


def seq_updates(fc: int, fp: int, t1: int, d2: int, d3: int, u1: int, u2: int) -> str:
    """
    "While it stays installed": a tracepoint registered through the real TracepointConfigService keeps its limits
    across configuration updates that leave it installed - between the hits another tracepoint is registered (1) /
    registered and removed again (2), the service sends a new configuration (3) or answers NO_CHANGE (4); 0 = nothing.
    PRE: t1 > 0 and d2 >= 0 and d3 >= 0 and 0 <= u1 <= 4 and 0 <= u2 <= 4
    POST: _ == ""
    """
    world.begin_path()
    from deep.api.tracepoint.trigger import build_trigger
    u1, u2 = world.realize(u1), world.realize(u2)
    w = World()
    w.tps.set_task_handler(_InlineTasks())
    w.tps.add_custom("f.py", 7, {"fire_count": fc, "fire_period": fp}, [], [])
    times = [t1, t1 + d2, t1 + d2 + d3]
    fired = []
    n_other = [0]

    def update(u, ts):
        if u == 1:
            n_other[0] += 1
            w.tps.add_custom("g.py", 10 + n_other[0], {}, [], [])
        elif u == 2:
            h = w.tps.add_custom("g.py", 99, {}, [], [])
            w.tps.remove_custom(h)
        elif u == 3:
            w.tps.update_new_config(ts, "hash-%d" % ts if isinstance(ts, int) else "hash", [build_trigger("srv", "h.py", 3, {}, [], [])])
        elif u == 4:
            w.tps.update_no_change(ts)
    for i, t in enumerate(times):
        w.clock.t = t
        before = len(w.push.snapshots)
        w.event(FakeFrame("/app/f.py", "fn", 7, {"x": 1}), "line", None)
        got = len(w.push.snapshots) - before
        if got > 1:
            return "C04:updates:double-collection-on-one-hit"
        if got == 1:
            fired.append(i)
        if i < 2:
            update((u1, u2)[i], 1000 + i)
    world.reached()
    want, _, _ = _ref(fc, fp, 0, 0, times)
    if fired != want:
        if len(fired) > len(want):
            return "C04:updates:limit-exceeded-after-a-configuration-update"
        return "C04:updates:permitted-hit-lost-after-a-configuration-update"
    return ""


TEXTS = ["1", "2", "-1", "0", "abc", "", "1.5", " 3 ", "+2", "0x2"]


def _ref_text_int(s, default):
    try:
        return int(s)
    except ValueError:
        return default


def seq_kinds(ak: int, fc: int, fp: int, t1: int, d2: int, d3: int) -> str:
    """
    The same limits hold for every action kind: log line (1), metric (2), span (3) - with the providers installed.
    PRE: 1 <= ak <= 3 and t1 > 0 and d2 >= 0 and d3 >= 0
    POST: _ == ""
    """
    world.begin_path()
    from deep.api.tracepoint.trigger import build_trigger
    from deep.api.tracepoint.tracepoint_config import MetricDefinition
    from vlib.world import plugins
    ak = world.realize(ak)
    P = plugins()
    log = []
    w = World(plugin_list=[P["RecLogger"](log), P["RecMetricProcessor"](log), P["RecSpanProcessor"](log)])
    w.log = log
    args = {"fire_count": fc, "fire_period": fp, "snapshot": "no_collect"}
    metrics = []
    if ak == 1:
        args["log_msg"] = "m"
    elif ak == 2:
        metrics = [MetricDefinition("m", "COUNTER")]
    else:
        args["span"] = "line"
    trig = build_trigger("tp1", "f.py", 7, args, [], metrics)
    times = [t1, t1 + d2, t1 + d2 + d3]
    fired = _drive(w, trig, times)
    world.reached()
    want, _, _ = _ref(fc, fp, 0, 0, times)
    if fired != want:
        if fired is None or len(fired) > len(want):
            return "C04:kinds:limit-exceeded"
        return "C04:kinds:permitted-hit-lost"
    return ""


def seq_text(ci: int, pi: int, t1: int, d2: int, d3: int) -> str:
    """
    fire_count / fire_period given as text (valid, blank, unparsable): unparsable falls back to the defaults 1 / 1000.
    PRE: 0 <= ci < 10 and 0 <= pi < 10
    PRE: t1 > 0 and d2 >= 0 and d3 >= 0
    POST: _ == ""
    """
    world.begin_path()
    from deep.api.tracepoint.trigger import build_trigger
    w = World()
    fcs, fps = TEXTS[world.realize(ci)], TEXTS[world.realize(pi)]
    trig = build_trigger("tp1", "f.py", 7, {"fire_count": fcs, "fire_period": fps}, [], [])
    times = [t1, t1 + d2, t1 + d2 + d3]
    fired = _drive(w, trig, times)
    world.reached()
    want, _, _ = _ref(_ref_text_int(fcs, 1), _ref_text_int(fps, 1000), 0, 0, times)
    if fired is None:
        return "C04:double-collection-on-one-hit"
    if fired != want:
        return "C04:text-limits:" + ("limit-exceeded" if len(fired) > len(want) else "hit-lost")
    return ""


def seq_defaults(t1: int, d2: int, d3: int, which: int) -> str:
    """
    Absent fire_count / fire_period mean 1 / 1000 ms.
    PRE: t1 > 0 and d2 >= 0 and d3 >= 0 and 0 <= which <= 2
    POST: _ == ""
    """
    world.begin_path()
    from deep.api.tracepoint.trigger import build_trigger
    w = World()
    which = world.realize(which)
    args = [{}, {"fire_count": "-1"}, {"fire_period": "0", "fire_count": "3"}][which]
    fc, fp = [(1, 1000), (-1, 1000), (3, 0)][which]
    trig = build_trigger("tp1", "f.py", 7, dict(args), [], [])
    times = [t1, t1 + d2, t1 + d2 + d3]
    fired = _drive(w, trig, times)
    world.reached()
    want, _, _ = _ref(fc, fp, 0, 0, times)
    if fired != want:
        return "C04:defaults:" + str(which)
    return ""


def window_direct(ws: int, we: int, fp: int, t1: int, d2: int, d3: int) -> str:
    """
    Window configured on the action (ints, as the unit tests construct it): no collection outside it, and hits inside it
    (limits permitting) collect.
    PRE: ws >= 0 and we >= 0 and fp >= 0
    PRE: t1 > 0 and d2 >= 0 and d3 >= 0
    POST: _ == ""
    """
    world.begin_path()
    from deep.api.tracepoint.trigger import LocationAction, LineLocation, Trigger, Location
    w = World()
    act = LocationAction("tp1", None, {"fire_count": -1, "fire_period": fp, "window_start": ws, "window_end": we,
                                       "watches": []}, LocationAction.ActionType.Snapshot)
    trig = Trigger(LineLocation("f.py", 7, Location.Position.START), [act])
    times = [t1, t1 + d2, t1 + d2 + d3]
    fired = _drive(w, trig, times)
    world.reached()
    want, _, _ = _ref(-1, fp, ws, we, times)
    if fired != want:
        for i in (fired or []):
            t = times[i]
            if not ((ws == 0 or ws <= t) and (we == 0 or t <= we)):
                return "C04:collected-outside-window"
        return "C04:window:wrong-hits"
    return ""


def window_args(ws: int, we: int, t1: int) -> str:
    """
    Window configured through the tracepoint arguments window_start / window_end (the public route).
    PRE: ws >= 0 and we >= 0 and t1 > 0
    POST: _ == ""
    """
    world.begin_path()
    from deep.api.tracepoint.trigger import build_trigger
    w = World()
    trig = build_trigger("tp1", "f.py", 7, {"fire_count": -1, "window_start": ws, "window_end": we}, [], [])
    fired = _drive(w, trig, [t1])
    world.reached()
    want, _, _ = _ref(-1, 1000, ws, we, [t1])
    if fired != want:
        if fired and not want:
            return "C04:window-args-ignored:collected-outside-window"
        return "C04:window-args:hit-lost"
    return ""


def step(fc: int, fp: int, count: int, last: int, dt: int) -> str:
    """
    Inductive step: from ANY reachable limiter state (count fires so far, last fire instant) one more hit keeps the
    invariant (count <= fire_count unless unlimited), respects the period gap, and fires exactly when permitted.
    PRE: count >= 0 and last >= 0 and dt >= 0
    PRE: (count == 0) == (last == 0)
    PRE: fc == -1 or count <= fc or (fc < 0 and count == 0)
    POST: _ == ""
    """
    world.begin_path()
    from deep.api.tracepoint.trigger import build_trigger
    w = World()
    trig = build_trigger("tp1", "f.py", 7, {"fire_count": fc, "fire_period": fp}, [], [])
    act = trig.actions[0]
    st = act._LocationAction__stats
    st._fire_count = count
    st._last_fire = last
    t = last + dt + 1
    fired = _drive(w, trig, [t])
    world.reached()
    want = _ref_allowed(fc, fp, 0, 0, count, last, t)
    if (fired == [0]) != want:
        return "C04:step:" + ("fired-when-forbidden" if fired else "permitted-hit-lost")
    n2, l2 = st._fire_count, st._last_fire
    if want:
        if n2 != count + 1 or l2 != t:
            return "C04:step:fire-not-recorded"
        if last != 0 and t - last < fp * 1000000:
            return "C04:step:period-gap-violated"
        if fc != -1 and n2 > fc:
            return "C04:step:invariant-broken"
    else:
        if n2 != count or l2 != last:
            return "C04:step:rejected-hit-changed-state"
    return ""


_CACHE = {}


def _stepped_trace():
    if "v" not in _CACHE:
        from vlib.stepper import stepify
        from deep.processor.trigger_handler import TriggerHandler
        _CACHE["v"] = stepify(TriggerHandler._TriggerHandler__trace_call, set(), owner=TriggerHandler)
    return _CACHE["v"]


def concurrent(fc: int, p1: int, t1: int) -> str:
    """
    Two threads reach the same tracepoint at the same time: each runs the statement-stepped real trace handler body
    (check -> collect -> record on leaving the action context); schedule = one pre-emption at a SYMBOLIC step index.
    Collections never exceed fire_count.
    PRE: 1 <= fc <= 2 and 0 <= p1 <= 60 and 0 <= t1 <= 1
    POST: _ == ""
    """
    world.begin_path()
    import types
    from vlib.stepper import Sched, gen_call
    from deep.api.tracepoint.trigger import build_trigger
    fc, t1 = world.realize(fc), world.realize(t1)
    w = World()
    w.install([build_trigger("tp1", "f.py", 7, {"fire_count": fc, "fire_period": "0", "frame_type": "no_frame"}, [], [])])
    g = _stepped_trace()
    sched = Sched(preempt=[(p1, t1)], picks=[])

    def hit(i):
        frame = FakeFrame("/app/f.py", "fn", 7, {"x": i})
        yield from g(w.handler, frame, "line", None)
    sched.spawn("t0", hit(0))
    sched.spawn("t1", hit(1))
    sched.spawn("t2", hit(2))
    sched.run()
    world.reached()
    if len(w.push.snapshots) > fc:
        return "C04:concurrent:fire_count-exceeded"
    if len(w.push.snapshots) < min(fc, 3):
        return "C04:concurrent:permitted-hit-lost"
    return ""


class _TickClock:
    """time_ns stand-in: every reading is 200 ms later than the one before (hits read the clock once, in thread order)."""

    def __init__(self):
        self.t = 1_000_000_000

    def __call__(self):
        self.t += 200_000_000
        return self.t


def concurrent_period(p1: int, t1: int, nth: int) -> str:
    """
    Threads reach the same tracepoint 200 ms apart (fire_count unlimited, fire_period 1000 ms), each on the
    statement-stepped real handler; one pre-emption at a SYMBOLIC step: whichever way the hits overlap - also when the
    hit that read the clock FIRST is the one that checks LAST - no two collections are closer than the period.
    PRE: 0 <= p1 <= 60 and 0 <= t1 <= 2 and 2 <= nth <= 3
    POST: _ == ""
    """
    world.begin_path()
    from vlib.stepper import Sched
    from deep.api.tracepoint.trigger import build_trigger
    t1, nth = world.realize(t1), world.realize(nth)
    w = World(clock=_TickClock())
    w.install([build_trigger("tp1", "f.py", 7, {"fire_count": "-1", "fire_period": "1000", "frame_type": "no_frame"}, [], [])])
    g = _stepped_trace()
    sched = Sched(preempt=[(p1, t1)], picks=[])

    def hit(i):
        frame = FakeFrame("/app/f.py", "fn", 7, {"x": i})
        yield from g(w.handler, frame, "line", None)
    for i in range(nth):
        sched.spawn("t%d" % i, hit(i))
    sched.run()
    world.reached()
    if len(w.push.snapshots) > 1:
        return "C04:concurrent:two-collections-within-fire_period"
    if len(w.push.snapshots) < 1:
        return "C04:concurrent:permitted-hit-lost"
    return ""


# ---- sensitivity twins: in-memory mutations of the anchored kernel (repo untouched) -------------------------------
def _mut_fire_not_counted():
    from deep.api.tracepoint.tracepoint_config import TracepointExecutionStats

    def fire(self, ts):
        self._last_fire = ts
    TracepointExecutionStats.fire = fire


def _mut_period_le():
    from deep.api.tracepoint.trigger import LocationAction

    def can_trigger(self, ts):
        st = self._LocationAction__stats
        if self.fire_count != -1 and self.fire_count <= st.fire_count:
            return False
        if not self._LocationAction__window.in_window(ts):
            return False
        if st.last_fire != 0 and ts - st.last_fire <= self.fire_period * 1000000:
            return False
        return True
    LocationAction.can_trigger = can_trigger


def _mut_period_sign():
    """A hit whose timestamp is older than the recorded last fire skips the period check."""
    from deep.api.tracepoint.trigger import LocationAction

    def can_trigger(self, ts):
        st = self._LocationAction__stats
        if self.fire_count != -1 and self.fire_count <= st.fire_count:
            return False
        if not self._LocationAction__window.in_window(ts):
            return False
        if st.last_fire != 0 and 0 <= ts - st.last_fire < self.fire_period * 1000000:
            return False
        return True
    LocationAction.can_trigger = can_trigger


MUTANTS = {"period_sign": _mut_period_sign, "fire_not_counted": _mut_fire_not_counted, "period_le": _mut_period_le}

CONDITIONS = [
    dict(fn="seq_built", cubes={"quick": ["k == 1", "k == 2", "k == 3"], "thorough": ["k == 1", "k == 2", "k == 3", "k == 4"]},
         twins=["reach", "mutant:fire_not_counted@k == 2", "mutant:period_le@k == 2"],
         bounds="k<=3 hits (4 thorough) at unbounded non-decreasing instants > 0; fire_count, fire_period unbounded ints"),
    dict(fn="seq_kinds", cubes=["ak == %d" % a for a in (1, 2, 3)], twins=["reach"],
         bounds="log / metric / span actions with their providers installed; 3 hits; fire_count, fire_period and instants unbounded symbolic"),
    dict(fn="seq_updates", cubes=["u1 == %d and u2 == %d" % (a, b) for a in range(5) for b in range(5)], twins=["reach", "mutant:fire_not_counted@u1 == 1 and u2 == 0"],
         bounds="3 hits on a tracepoint registered through TracepointConfigService; between hits one of 5 configuration operations that leave it installed; fire_count, fire_period and instants unbounded symbolic"),
    dict(fn="seq_text", cubes={"quick": ["ci == %d" % i for i in range(10)], "thorough": ["ci == %d" % i for i in range(10)]},
         twins=["reach"], bounds="fire_count/fire_period text from a pool of 10 (valid, blank, unparsable); 3 hits"),
    dict(fn="seq_defaults", cubes={"quick": [""], "thorough": [""]}, twins=["reach"], bounds="3 hits, 3 argument sets"),
    dict(fn="window_direct", cubes={"quick": [""], "thorough": [""]}, twins=["reach"],
         bounds="window bounds unbounded ints >= 0 set on the action config; 3 hits"),
    dict(fn="window_args", cubes={"quick": [""], "thorough": [""]}, twins=["reach"],
         bounds="window bounds unbounded ints >= 0 given as tracepoint args; 1 hit"),
    dict(fn="concurrent", cubes={"quick": ["fc == 1 and t1 == 1 and p1 <= 30", "fc == 1 and t1 == 1 and p1 > 30"], "thorough": ["fc == %d and t1 == %d" % (a, b) for a in (1, 2) for b in (0, 1)]},
         twins=["reach", "mutant:fire_not_counted@fc == 1 and t1 == 1 and p1 <= 30"],
         bounds="3 threads hitting one tracepoint (fire_count 1-2), statement-stepped real handler, one pre-emption at a symbolic step"),
    dict(fn="concurrent_period", cubes={"quick": ["nth == 2 and t1 == 1", "nth == 3 and t1 == 2"], "thorough": ["nth == %d and t1 == %d" % (a, b) for a in (2, 3) for b in (0, 1, 2)]},
         twins=["reach", "mutant:period_sign@nth == 2 and t1 == 1"],
         bounds="2-3 threads 200 ms apart on one tracepoint (fire_count unlimited, fire_period 1000 ms), statement-stepped real handler, one pre-emption at a symbolic step (0..60)"),
    dict(fn="step", cubes={"quick": [""], "thorough": [""]}, twins=["reach", "mutant:fire_not_counted", "mutant:period_le"],
         bounds="one hit from an arbitrary limiter state (inductive step: histories of any length)"),
]

try:
    _stepped_trace()
except Exception:
    pass
