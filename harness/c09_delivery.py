"""C09 Delivery runs off the application thread, exactly once, and flush really drains."""
from vlib import world
from vlib.stepper import stepify, Sched, SimPool, Deadlock, gen_call

PROPERTY = "C09"
FUNCTIONS = ["TaskHandler.submit_task (+ nested completion callback) / flush / _next_id / __check_open - statement-stepped from the current source",
             "PushService.push_snapshot (stepped) / _push_task (replaced by the harness' task body: convert+send are C08's subject)"]
STUBS = ["ThreadPoolExecutor(2) / Future -> SimPool / SimFuture (FIFO queue, 2 workers, result() blocks until done then returns or raises, callbacks run in the "
         "completing thread or immediately when already done)", "threading.Lock in _next_id: the method is one atomic step (the lock is assumed to work)",
         "scheduler: running thread continues until it ends or blocks; <= c pre-emptions at SYMBOLIC step indexes (c = 1 quick, 2 thorough); forced switches by symbolic picks",
         "atomicity: one source statement (x += 1 split into load/store)"]
OUTSIDE = ["the 10 s result() timeout (tasks are assumed to finish)", "tasks failing with BaseException-only errors (flush re-raises those: Future.result does; no such error is raised by the push task itself)", "more than 3 tasks / more than 2 pre-emptions", "bytecode-level races inside one expression"]


class TaskFail(Exception):
    pass


_CACHE = {}


def _stepped_handler():
    """A real TaskHandler whose methods are the statement-stepped versions of the CURRENT source (built once per process,
    before the engine starts tracing; every check run is a fresh process, so the encoding follows /repo's working tree)."""
    if "v" not in _CACHE:
        _CACHE["v"] = _build_stepped()
    return _CACHE["v"]


def _build_stepped():
    from deep.task import TaskHandler
    from deep.push.push_service import PushService
    wrap = {"submit_task", "flush", "check_open", "result", "add_done_callback", "submit", "push_snapshot"}
    g_submit = stepify(TaskHandler.submit_task, wrap, owner=TaskHandler)
    g_flush = stepify(TaskHandler.flush, wrap, owner=TaskHandler)
    g_check = stepify(TaskHandler._TaskHandler__check_open, wrap, owner=TaskHandler)
    g_push = stepify(PushService.push_snapshot, wrap, owner=PushService)
    return TaskHandler, PushService, g_submit, g_flush, g_check, g_push


SCRIPTS = [
    ["p0", "p1", "flush"],
    ["p0", "flush", "p1"],
    ["p0", "p1", "flush", "p2"],
    ["p0", "flush"],
    ["p0", "p1", "p2", "flush"],
    ["flush", "p0"],
]


def _run(script_i, fails, slows, preempt, picks, second=False, second_flushes=False):
    """Returns failure signature or ''."""
    TaskHandler, PushService, g_submit, g_flush, g_check, g_push = _stepped_handler()
    from vlib.stepper import reset_locks
    reset_locks()
    sched = Sched(preempt=preempt, picks=picks)
    th = TaskHandler.__new__(TaskHandler)
    import threading
    th._pool = None
    th._pending = {}
    th._job_id = 0
    th._lock = threading.Lock()
    th._accept_lock = threading.Lock()
    th._open = True
    # bind the stepped methods on the instance
    import types
    th.submit_task = types.MethodType(g_submit, th)
    th.flush = types.MethodType(g_flush, th)
    setattr(th, "_TaskHandler__check_open", types.MethodType(g_check, th))
    ps = PushService.__new__(PushService)
    ps.grpc = None
    ps.task_handler = th
    ps.push_snapshot = types.MethodType(g_push, ps)
    runs = {}           # task index -> list of thread names that ran it
    finished = set()
    state = {"flushed": False, "late": [], "submitted": []}

    def make_task(i):
        def body(snapshot):
            runs.setdefault(i, []).append(sched.current_name)
            for _ in range(slows[i]):
                yield "slow"
            if fails[i]:
                raise TaskFail("task %d failed" % i)
            finished.add(i)
        return body
    tasks = {}

    class Snap:
        def __init__(self, i):
            self.id = i
    events = []

    accepted = []

    def app2_flush():
        # a second thread (an atexit hook, a second shutdown) also flushes: it too may only return once everything
        # accepted so far has finished
        try:
            yield from gen_call(th.flush)
            events.append(("flush-ok", list(state["submitted"]), set(runs.keys()), set(finished)))
        except BaseException as e:  # noqa
            if type(e).__module__.startswith("crosshair"):
                raise
            events.append(("flush-raised", type(e).__name__))

    def app2():
        # a second application thread hits a tracepoint at some point (whenever the schedule lets it run)
        ps2 = PushService.__new__(PushService)
        ps2.grpc, ps2.task_handler = None, th
        ps2.push_snapshot = types.MethodType(g_push, ps2)
        ps2._push_task = make_task(9)
        try:
            yield from gen_call(ps2.push_snapshot, Snap(9))
            accepted.append(9)
            events.append(("accepted", 9))
        except BaseException as e:  # noqa
            if type(e).__module__.startswith("crosshair"):
                raise
            events.append(("refused", 9, type(e).__name__))

    def app():
        for op in SCRIPTS[script_i]:
            if op == "flush":
                try:
                    yield from gen_call(th.flush)
                    state["flushed"] = True
                    events.append(("flush-ok", list(state["submitted"]), set(runs.keys()), set(finished)))
                except BaseException as e:  # noqa
                    if type(e).__module__.startswith("crosshair"):
                        raise
                    events.append(("flush-raised", type(e).__name__))
            else:
                i = int(op[1:])
                # the push service's task body for this snapshot
                ps._push_task = make_task(i)
                try:
                    yield from gen_call(ps.push_snapshot, Snap(i))
                    accepted.append(i)
                    events.append(("accepted", i))
                except BaseException as e:  # noqa
                    if type(e).__module__.startswith("crosshair"):
                        raise
                    events.append(("refused", i, type(e).__name__))
    fails = list(fails) + [False] * 7
    slows = list(slows) + [0] * 7
    app_idx = sched.spawn("app", app())
    th._pool = SimPool(sched, workers=2)
    pool_submit = th._pool.submit

    def recording_submit(task, *a):
        idx = a[0].id if a else -1
        if state["flushed"]:
            state["late"].append(idx)
        state["submitted"].append(idx)
        return pool_submit(task, *a)
    th._pool.submit = recording_submit
    if second:
        sched.spawn("app2", app2_flush() if second_flushes else app2())
    done_flags = {}
    try:
        sched.run()
    except Deadlock as d:
        return "C09:deadlock"
    world.reached()
    accepted = [e[1] for e in events if e[0] == "accepted"]
    flushed = False
    for e in events:
        if e[0] == "flush-raised":
            return "C09:flush-raised:" + e[1]
        if e[0] == "flush-ok":
            flushed = True
            acc_before, ran_then, fin = e[1], e[2], e[3]
            for i in acc_before:
                if i not in ran_then:
                    return "C09:flush-returned-before-an-accepted-task-ran"
                if not (i in fin or fails[i]):
                    return "C09:flush-returned-before-an-accepted-task-finished"
        if e[0] == "accepted" and flushed and not second:
            return "C09:task-accepted-after-flush"
        if e[0] == "refused" and not flushed and not second:
            return "C09:task-refused-before-flush"
    for i in accepted:
        r = runs.get(i, [])
        if len(r) != 1:
            return "C09:task-ran-%s" % ("twice" if len(r) > 1 else "never")
        if r[0] in ("app", "app2"):
            return "C09:task-ran-on-the-application-thread"
        if not fails[i] and i not in finished:
            return "C09:healthy-task-did-not-finish"
    if state["late"]:
        return "C09:task-accepted-after-flush"
    for i in runs:
        if i not in accepted:
            return "C09:refused-task-ran-anyway"
    if th._pending:
        return "C09:pending-map-not-empty-at-quiescence"
    return ""


def delivery(si: int, f0: bool, f1: bool, f2: bool, s0: int, s1: int, s2: int, p1: int, t1: int, k1: int, k2: int) -> str:
    """
    1-3 snapshots pushed from the application thread (any subset failing or slow), flush at any position, a push after
    flush; schedule = one pre-emption at a SYMBOLIC step index + symbolic picks at forced switches, over the app thread
    and the two workers of the statement-stepped real TaskHandler.
    PRE: 0 <= si <= 5 and 0 <= s0 <= 2 and 0 <= s1 <= 2 and 0 <= s2 <= 2
    PRE: 0 <= p1 <= 70 and 0 <= t1 <= 2 and 0 <= k1 <= 2 and 0 <= k2 <= 2
    POST: _ == ""
    """
    world.begin_path()
    si, f0, f1, f2, s0, s1, s2, t1, k1, k2 = [world.realize(x) for x in (si, f0, f1, f2, s0, s1, s2, t1, k1, k2)]
    return _run(si, [f0, f1, f2], [s0, s1, s2], [(p1, t1)], [k1, k2])


def delivery_two_apps(si: int, f0: bool, p1: int, t1: int, p2: int, t2: int, a2: int) -> str:
    """
    A second application thread pushes a snapshot at an arbitrary moment (two pre-emptions at SYMBOLIC steps move control
    to it and back): when flush returns, every task accepted so far has finished - a push racing with flush is either
    refused visibly or waited for.
    The second thread pushes (a2 0) or flushes as well (a2 1).
    PRE: si in (0, 3) and 0 <= p1 <= 50 and 0 <= t1 <= 3 and p1 < p2 <= 60 and 0 <= t2 <= 3 and 0 <= a2 <= 1
    POST: _ == ""
    """
    world.begin_path()
    si, f0, t1, t2, a2 = [world.realize(x) for x in (si, f0, t1, t2, a2)]
    return _run(si, [f0, False, False], [0, 0, 0], [(p1, t1), (p2, t2)], [0], second=True, second_flushes=bool(a2))


def delivery2(si: int, f0: bool, f1: bool, s0: int, s1: int, p1: int, t1: int, p2: int, t2: int, k1: int) -> str:
    """
    Two pre-emptions (context bound 2).
    PRE: 0 <= si <= 3 and 0 <= s0 <= 1 and 0 <= s1 <= 1
    PRE: 0 <= p1 <= 60 and 0 <= t1 <= 2 and p1 < p2 <= 60 and 0 <= t2 <= 2 and 0 <= k1 <= 2
    POST: _ == ""
    """
    world.begin_path()
    si, f0, f1, s0, s1, t1, t2, k1 = [world.realize(x) for x in (si, f0, f1, s0, s1, t1, t2, k1)]
    return _run(si, [f0, f1, False], [s0, s1, 0], [(p1, t1), (p2, t2)], [k1])


def delivery3(s1: int, f1: bool, p1: int, p2: int, k1: int) -> str:
    """
    Three pushes, then flush, while tasks complete in between: a pre-emption to worker 1 at a SYMBOLIC step (an earlier
    task runs and completes between two pushes) and one back to the application thread at a later symbolic step (the
    next push is accepted while another task is still in flight): flush still waits for EVERY accepted task.
    PRE: 0 <= s1 <= 2 and 0 <= p1 <= 48 and p1 < p2 <= 60 and 0 <= k1 <= 2
    POST: _ == ""
    """
    world.begin_path()
    s1, f1, k1 = world.realize(s1), world.realize(f1), world.realize(k1)
    return _run(4, [False, f1, False], [0, s1, 0], [(p1, 1), (p2, 0)], [k1, 0])


def send_once(fk: int, ns: int) -> str:
    """
    The real PushService.push_snapshot / _push_task (run through an inline task handler) against a recording service
    stub whose send succeeds, or fails with a gRPC error / another Exception after the service has seen the request: every
    accepted snapshot is handed to the service EXACTLY once - never twice, whatever the outcome - and a failure touches
    no other snapshot.
    PRE: 0 <= fk <= 3 and 1 <= ns <= 3
    POST: _ == ""
    """
    world.begin_path()
    import grpc
    import deep.push.push_service as psm
    from deep.push.push_service import PushService
    from deepproto.proto.tracepoint.v1.tracepoint_pb2 import Snapshot
    fk, ns = world.realize(fk), world.realize(ns)
    seen = []

    class RpcFailure(grpc.RpcError):
        pass

    class Stub:
        def __init__(self, channel):
            pass

        def send(self, request, metadata=None):
            seen.append(request.ID)
            if fk == 1 and len(seen) == 1:
                raise RpcFailure("deadline exceeded")          # the reply was lost: the service HAS the snapshot
            if fk == 2 and len(seen) == 1:
                raise RuntimeError("channel closed")
            if fk == 3:
                raise RpcFailure("unavailable")

    class Grpc:
        channel = None

        def metadata(self):
            return []

    class Inline:
        class F:
            def add_done_callback(self, cb):
                cb(self)

            def exception(self):
                return None

        def submit_task(self, task, *args):
            try:
                task(*args)
            except Exception:
                pass                 # kept by the future in the real handler
            return Inline.F()
    import deep.push as dp
    real_stub, real_conv = psm.SnapshotServiceStub, dp.convert_snapshot
    psm.SnapshotServiceStub = Stub
    dp.convert_snapshot = lambda snap: Snapshot(ID=snap.id.to_bytes(16, "big"))

    class Snap:
        def __init__(self, i):
            self.id = i + 1
    try:
        ps = PushService(Grpc(), Inline())
        for i in range(ns):
            try:
                ps.push_snapshot(Snap(i))
            except Exception as e:
                world.reached()
                return "C09:send:push-raised-into-the-application:" + type(e).__name__
    finally:
        psm.SnapshotServiceStub, dp.convert_snapshot = real_stub, real_conv
    world.reached()
    want = [(i + 1).to_bytes(16, "big") for i in range(ns)]
    if sorted(set(seen)) != want:
        return "C09:send:snapshot-never-handed-to-the-service"
    if len(seen) != len(set(seen)):
        return "C09:send:snapshot-sent-more-than-once"
    return ""


def _mut_callback_keeps_pending():
    import deep.task as t
    src_holder = {}
    orig = t.TaskHandler.submit_task

    def submit_task(self, task, *args):
        self._TaskHandler__check_open()
        next_id = self._next_id()
        future = self._pool.submit(task, *args)
        self._pending[next_id] = future

        def callback(_future):
            if _future.exception() is not None:
                pass
        future.add_done_callback(callback)
        return future
    t.TaskHandler.submit_task = submit_task
    _CACHE.clear()
    _stepped_handler()


def _mut_flush_reraises():
    import deep.task as t

    def flush(self):
        self._open = False
        if len(self._pending) > 0:
            for key in dict(self._pending).keys():
                get = self._pending.get(key)
                if get is not None:
                    get.result(10)
    t.TaskHandler.flush = flush
    _CACHE.clear()
    _stepped_handler()


def _mut_flush_keeps_open():
    import deep.task as t

    def flush(self):
        if len(self._pending) > 0:
            for key in dict(self._pending).keys():
                get = self._pending.get(key)
                if get is not None:
                    try:
                        get.result(10)
                    except Exception:
                        pass
        self._open = False
    t.TaskHandler.flush = flush
    _CACHE.clear()
    _stepped_handler()


def _mut_pending_key_from_size():
    """The pending-map key is taken from the size of the map (keys collide once an earlier task has completed)."""
    from deep.task import TaskHandler
    TaskHandler._next_id = lambda self: len(self._pending) + 1
    _CACHE.clear()
    _stepped_handler()


MUTANTS = {"pending_key_from_size": _mut_pending_key_from_size, "callback_keeps_pending": _mut_callback_keeps_pending, "flush_reraises": _mut_flush_reraises, "flush_keeps_open": _mut_flush_keeps_open}

CONDITIONS = [
    dict(fn="send_once", cubes=["fk == %d" % k for k in range(4)], twins=["reach"],
         bounds="real push_snapshot/_push_task (inline task handler, conversion replaced by an id-only message): 1-3 snapshots; send ok / first send fails with grpc.RpcError / with RuntimeError / every send fails"),
    dict(fn="delivery", cubes={"quick": ["si == %d and t1 == %d and f0 == %s and s0 == 0 and s1 == 0 and s2 == 0 and not f2 and k1 == 0 and k2 == 0" % (s, t, f)
                                         for s in (0, 1, 2, 3, 5) for t in range(3) for f in ("True", "False")],
                               "thorough": ["si == %d and t1 == %d and f0 == %s and f1 == %s and s0 == %d and s1 == 0 and s2 == 0 and not f2 and k1 == 0 and k2 == 0" % (s, t, f, g, sl)
                                            for s in range(6) for t in range(3) for f in ("True", "False") for g in ("True", "False") for sl in (0, 1)]},
         twins=["reach", "mutant:callback_keeps_pending@si == 3 and t1 == 0 and f0 == False and s0 == 0 and s1 == 0 and s2 == 0 and not f2 and k1 == 0 and k2 == 0",
                "mutant:flush_reraises@si == 0 and t1 == 1 and f0 == True and s0 == 0 and s1 == 0 and s2 == 0 and not f2 and k1 == 0 and k2 == 0"],
         timeout={"quick": 420, "thorough": 900},
         bounds="quick: 5 application scripts (1-2 pushes, flush at any position, push after flush), each task failing or not; one pre-emption at a SYMBOLIC step "
                "index (0..70, partitioned by the solver over the steps actually taken) to any of the 3 threads; thorough: 6 scripts (up to 3 pushes), tasks slow by 0-2 steps, "
                "symbolic picks at forced switches"),
    dict(fn="delivery_two_apps", cubes={"quick": ["si == 3 and t1 == 3 and t2 == 0 and f0 == False and a2 == 0 and %s and p2 - p1 <= 14" % r for r in ("p1 <= 8", "8 < p1 <= 16", "16 < p1 <= 24", "24 < p1 <= 32")] +
                                                 ["si == 3 and t1 == 3 and t2 == %d and f0 == False and a2 == 1 and %s and p2 - p1 <= 8" % (b, r) for b in (0, 1) for r in ("8 < p1 <= 20", "20 < p1 <= 32")],
                                        "thorough": ["si == %d and t1 == %d and t2 == %d and f0 == False and a2 == %d" % (s, a, b, c) for s in (0, 3) for a in (0, 3) for b in range(4) for c in (0, 1)]},
         twins=["reach@si == 3 and t1 == 3 and t2 == 0 and f0 == False and a2 == 0 and p1 <= 8 and p2 - p1 <= 14", "mutant:flush_keeps_open@si == 3 and t1 == 3 and t2 == 0 and f0 == False and a2 == 0 and 16 < p1 <= 24 and p2 - p1 <= 14"], timeout={"quick": 420, "thorough": 900},
         bounds="application thread (push, flush) + a second application thread pushing once or calling flush as well + 2 workers; two pre-emptions at symbolic steps "
                "(quick: the first one, at step <= 32, to the second application thread, the second one at most 14 steps later back to the first)"),
    dict(fn="delivery3", cubes={"quick": ["s1 == %d and f1 == False and k1 == %d and %s and p2 - p1 <= 8" % (a, k, r) for a in (0, 1) for k in (0, 1, 2) for r in ("12 < p1 <= 20", "20 < p1 <= 28", "28 < p1 <= 36", "36 < p1 <= 44")],
                                "thorough": ["s1 == %d and f1 == %s and k1 == %d and %s" % (a, f, k, r) for a in (0, 1, 2) for f in ("False", "True") for k in (0, 1, 2) for r in ("p1 <= 16", "16 < p1 <= 32", "p1 > 32")]},
         twins=["reach@s1 == 0 and f1 == False and k1 == 1 and 20 < p1 <= 28 and p2 - p1 <= 8", "mutant:pending_key_from_size@s1 == 0 and f1 == False and k1 == 1 and 20 < p1 <= 28 and p2 - p1 <= 8"],
         timeout={"quick": 420, "thorough": 900},
         bounds="3 pushes then flush; pre-emption to worker 1 at a symbolic step (quick: 13..44) and back to the application thread at most 8 (thorough: any number of) steps later; "
                "the middle task slow by 0-1 (thorough 0-2) steps / failing (thorough); every pick at the forced switch"),
    dict(fn="delivery2", cubes={"quick": [], "thorough": ["si == %d and t1 == %d and t2 == %d and f0 == False and f1 == %s and s0 == 0 and s1 == 0 and k1 == 0 and p1 <= 40 and p2 <= 50" % (s, a, b, g)
                                             for s in (0, 3) for a in (1, 2) for b in (0, 1) for g in ("True", "False")]},
         twins=[], timeout={"quick": 420, "thorough": 900}, bounds="thorough only: two pre-emptions at symbolic step indexes (first <= 40, second <= 50)"),
]


if not _CACHE:
    try:
        _stepped_handler()
    except Exception:       # reported when the condition runs
        pass
