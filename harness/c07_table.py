"""C07 Snapshot variable table is closed and de-duplicated by object identity."""
from vlib import world
from vlib.world import World, FakeFrame
from vlib import graphs, reader

PROPERTY = "C07"
FUNCTIONS = ["VariableCacheProvider.check_id/new_var_id", "variable_processor.process_variable (cache branch)",
             "VariableSetProcessor.process_variable/append_child/append_variable/search_function", "ActionContext.eval_watch",
             "EventSnapshot.merge_var_lookup/add_watch_result", "FrameCollector._process_frame", "SnapshotActionContext._process_action"]
STUBS = ["FakeFrame", "RecPush", "time_ns fixed", "logging -> no-op",
         "MAX_VARIABLES injected through LocationAction.config (as SnapshotActionContext.collection_config reads it)"]
OUTSIDE = ["id() reuse between temporaries of different watch expressions (modelled hazard, not observed on CPython 3.12: the collector keeps results alive)",
           "two tracepoints on one trace event (recorded under C06)"]

WATCHES = ["{first}", "[{first}, {first}]", "{{'k': {first}, 'j': {last}}}", "len({names})", "({last},)", "{first} is {first}", "nope"]


def _snapshot(f_locals, mv, watches):
    from deep.api.tracepoint.trigger import LocationAction, LineLocation, Trigger, Location
    w = World()
    cfg = {"fire_count": -1, "fire_period": 0, "watches": list(watches), "MAX_VARIABLES": mv}
    act = LocationAction("tp1", None, cfg, LocationAction.ActionType.Snapshot)
    w.install([Trigger(LineLocation("f.py", 7, Location.Position.START), [act])])
    w.event(FakeFrame("/app/f.py", "fn", 7, f_locals), "line", None)
    return w.push.snapshots


def _check_table(s, f_locals, n_objects_upper):
    # 1. closure: every reference resolves
    roots = []
    for fr in s.frames:
        roots += list(fr.variables)
    for wr in s.watches:
        if wr.result is not None:
            roots.append(wr.result)
    for r in roots:
        if r.vid is None or r.vid not in s.var_lookup:
            return "C07:dangling-root-reference(frame-or-watch)"
    for vid, v in s.var_lookup.items():
        for c in v.children:
            if c.vid is None or c.vid not in s.var_lookup:
                return "C07:dangling-child-reference"
    # 2. one object one id, two objects never one id (identity via the recorded hash)
    by_hash = {}
    for vid, v in s.var_lookup.items():
        if v.hash in by_hash:
            return "C07:one-object-recorded-twice"
        by_hash[v.hash] = vid
    # every reference to a frame object goes through THE id of that object
    objs = graphs.all_objects(f_locals)
    for fr in s.frames[:1]:
        for r in fr.variables:
            o = f_locals.get(r.name)
            if r.name in f_locals and s.var_lookup[r.vid].hash != str(id(o)):
                return "C07:frame-reference-resolves-to-another-object"
    for vid, v in s.var_lookup.items():
        if int(v.hash) in objs:
            o = objs[int(v.hash)]
            real = {}
            for (nm, orig, c) in reader.children_of(o):
                real[nm] = c
            for c in v.children:
                if c.name in real and s.var_lookup[c.vid].hash != str(id(real[c.name])):
                    return "C07:child-reference-resolves-to-another-object"
    # 3. termination with back-references: the table cannot be larger than the number of distinct objects
    if n_objects_upper is not None and len(s.var_lookup) > n_objects_upper:
        return "C07:table-larger-than-the-number-of-distinct-objects"
    return ""


def table(t: int, n: int, wi: int, wj: int, mv: int) -> str:
    """
    Graph templates with sharing and cycles, two watches (a local already in the frame / fresh containers of existing
    objects / fresh scalars / failing), SYMBOLIC variable budget: every reference resolves inside the snapshot's own
    table, one object has one id, distinct objects distinct ids, cycles end in back-references.
    PRE: 0 <= t <= 8 and 0 <= n <= 3 and 0 <= wi <= 7 and 0 <= wj <= 7 and mv >= 0
    POST: _ == ""
    """
    world.begin_path()
    t, n, wi, wj = [world.realize(x) for x in (t, n, wi, wj)]
    f_locals = graphs.template(t, n)
    names = list(f_locals.keys())
    fmt = dict(first=names[0], last=names[-1], names=names[0])
    watches = [WATCHES[i].format(**fmt) for i in (wi, wj) if i < 7]
    snaps = _snapshot(f_locals, mv, watches)
    world.reached()
    if len(snaps) != 1:
        return "C07:no-snapshot"
    s = snaps[0]
    if [x.expression for x in s.watches] != watches:
        return "C07:watch-list"
    # fresh watch values add at most a handful of objects: containers (<= 2 per watch) + scalars
    upper = len(graphs.all_objects(f_locals)) + 4 * len(watches) + 2
    return _check_table(s, f_locals, upper)


def self_ref(kind: int, mv: int) -> str:
    """
    Locals that reach the locals mapping itself (as `locals()` does) or a watch that evaluates to it: still closed.
    PRE: 0 <= kind <= 2 and mv >= 0
    POST: _ == ""
    """
    world.begin_path()
    kind = world.realize(kind)
    f_locals = {"a": 1}
    watches = []
    if kind == 0:
        f_locals["me"] = f_locals
    elif kind == 1:
        f_locals["box"] = [f_locals]
    else:
        watches = ["locals()"]
    snaps = _snapshot(f_locals, mv, watches)
    world.reached()
    if len(snaps) != 1:
        return "C07:no-snapshot"
    return _check_table(snaps[0], {"a": 1}, None)


def _mut_id_reuse():
    from deep.processor.variable_set_processor import VariableCacheProvider

    def new_var_id(self, identity_hash_id):
        new_id = str(max(self.size, 1))
        self._VariableCacheProvider__cache[identity_hash_id] = new_id
        return new_id
    VariableCacheProvider.new_var_id = new_var_id


def _mut_no_dedup():
    from deep.processor.variable_set_processor import VariableCacheProvider
    VariableCacheProvider.check_id = lambda self, h: None


def _mut_merge_drops():
    from deep.api.tracepoint.eventsnapshot import EventSnapshot
    EventSnapshot.merge_var_lookup = lambda self, lookup: None


MUTANTS = {"id_reuse": _mut_id_reuse, "no_dedup": _mut_no_dedup, "merge_drops": _mut_merge_drops}

CONDITIONS = [
    dict(fn="table", cubes={"quick": ["t == %d and n == %d and wi == %d" % (t, 0 if t in (5, 6) else 2, w) for t in range(9) for w in (0, 1, 2, 7)],
                            "thorough": ["t == %d and n == %d and wi == %d" % (t, n, w) for t in range(9) for n in ((0,) if t in (5, 6) else (1, 2, 3)) for w in range(8)]},
         twins=["reach", "mutant:id_reuse@t == 5 and n == 0 and wi == 7", "mutant:no_dedup@t == 5 and n == 0 and wi == 7", "mutant:merge_drops@t == 0 and n == 2 and wi == 1"],
         timeout={"quick": 240, "thorough": 900},
         bounds="9 graph templates (incl. shared and cyclic) x 8x8 watch pairs (quick: first watch from 4) x UNBOUNDED symbolic max_variables"),
    dict(fn="self_ref", cubes=["kind == %d" % k for k in range(3)], twins=["reach"],
         bounds="locals containing the locals mapping directly / inside a list / reached by the watch 'locals()'; symbolic max_variables"),
]
