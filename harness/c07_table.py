"""C07 Snapshot variable table is closed and de-duplicated by object identity."""
from vlib import world
from vlib.world import World, FakeFrame
from vlib import graphs, reader

PROPERTY = "C07"
FUNCTIONS = ["VariableCacheProvider.check_id/new_var_id", "variable_processor.process_variable (cache branch)",
             "VariableSetProcessor.process_variable/append_child/append_variable/search_function", "ActionContext.eval_watch",
             "EventSnapshot.merge_var_lookup/add_watch_result", "FrameCollector._process_frame", "SnapshotActionContext._process_action"]
STUBS = ["FakeFrame", "RecPush", "time_ns fixed", "logging -> no-op",
         "MAX_VARIABLES injected through LocationAction.config (as SnapshotActionContext.collection_config reads it)"]
OUTSIDE = ["id() reuse between temporaries of different watch expressions (modelled hazard, not observed on CPython 3.12: the collector keeps results alive)",
           "two tracepoints on one trace event (recorded under C06)"]

WATCHES = ["{first}", "[{first}, {first}]", "{{'k': {first}, 'j': {last}}}", "len({names})", "({last},)", "{first} is {first}", "nope"]


def _snapshot(f_locals, mv, watches):
    from deep.api.tracepoint.trigger import LocationAction, LineLocation, Trigger, Location
    w = World()
    cfg = {"fire_count": -1, "fire_period": 0, "watches": list(watches), "MAX_VARIABLES": mv}
    act = LocationAction("tp1", None, cfg, LocationAction.ActionType.Snapshot)
    w.install([Trigger(LineLocation("f.py", 7, Location.Position.START), [act])])
    w.event(FakeFrame("/app/f.py", "fn", 7, f_locals), "line", None)
    return w.push.snapshots


def _check_table(s, f_locals, n_objects_upper):
    # 1. closure: every reference resolves
    roots = []
    for fr in s.frames:
        roots += list(fr.variables)
    for wr in s.watches:
        if wr.result is not None:
            roots.append(wr.result)
    for r in roots:
        if r.vid is None or r.vid not in s.var_lookup:
            return "C07:dangling-root-reference(frame-or-watch)"
    for vid, v in s.var_lookup.items():
        for c in v.children:
            if c.vid is None or c.vid not in s.var_lookup:
                return "C07:dangling-child-reference"
    # 2. one object one id, two objects never one id (identity via the recorded hash)
    by_hash = {}
    for vid, v in s.var_lookup.items():
        if v.hash in by_hash:
            return "C07:one-object-recorded-twice"
        by_hash[v.hash] = vid
    # every reference to a frame object goes through THE id of that object
    objs = graphs.all_objects(f_locals)
    for fr in s.frames[:1]:
        for r in fr.variables:
            o = f_locals.get(r.name)
            if r.name in f_locals and s.var_lookup[r.vid].hash != str(id(o)):
                return "C07:frame-reference-resolves-to-another-object"
    for vid, v in s.var_lookup.items():
        if int(v.hash) in objs:
            o = objs[int(v.hash)]
            real = {}
            for (nm, orig, c) in reader.children_of(o):
                real[nm] = c
            for c in v.children:
                if c.name in real and s.var_lookup[c.vid].hash != str(id(real[c.name])):
                    return "C07:child-reference-resolves-to-another-object"
    # 3. termination with back-references: the table cannot be larger than the number of distinct objects
    if n_objects_upper is not None and len(s.var_lookup) > n_objects_upper:
        return "C07:table-larger-than-the-number-of-distinct-objects"
    return ""


def table(t: int, n: int, wi: int, wj: int, mv: int) -> str:
    """
    Graph templates with sharing and cycles, two watches (a local already in the frame / fresh containers of existing
    objects / fresh scalars / failing), SYMBOLIC variable budget: every reference resolves inside the snapshot's own
    table, one object has one id, distinct objects distinct ids, cycles end in back-references.
    PRE: 0 <= t <= 8 and 0 <= n <= 3 and 0 <= wi <= 7 and 0 <= wj <= 7 and mv >= 0
    POST: _ == ""
    """
    world.begin_path()
    t, n, wi, wj = [world.realize(x) for x in (t, n, wi, wj)]
    f_locals = graphs.template(t, n)
    names = list(f_locals.keys())
    fmt = dict(first=names[0], last=names[-1], names=names[0])
    watches = [WATCHES[i].format(**fmt) for i in (wi, wj) if i < 7]
    snaps = _snapshot(f_locals, mv, watches)
    world.reached()
    if len(snaps) != 1:
        return "C07:no-snapshot"
    s = snaps[0]
    if [x.expression for x in s.watches] != watches:
        return "C07:watch-list"
    # fresh watch values add at most a handful of objects: containers (<= 2 per watch) + scalars
    upper = len(graphs.all_objects(f_locals)) + 4 * len(watches) + 2
    return _check_table(s, f_locals, upper)


def self_ref(kind: int, mv: int) -> str:
    """
    Locals that reach the locals mapping itself (as `locals()` does) or a watch that evaluates to it: still closed.
    PRE: 0 <= kind <= 2 and mv >= 0
    POST: _ == ""
    """
    world.begin_path()
    kind = world.realize(kind)
    f_locals = {"a": 1}
    watches = []
    if kind == 0:
        f_locals["me"] = f_locals
    elif kind == 1:
        f_locals["box"] = [f_locals]
    else:
        watches = ["locals()"]
    snaps = _snapshot(f_locals, mv, watches)
    world.reached()
    if len(snaps) != 1:
        return "C07:no-snapshot"
    return _check_table(snaps[0], {"a": 1}, None)


CAPTURED = [lambda: [1, 2, [3]], lambda: {"k": [1], "j": "s"}, lambda: ValueError("bad", [7]), lambda: "scalar", lambda: ("a", ("b",))]


def capture_table(ci: int, kind: int, t: int) -> str:
    """
    A deferred (method-capture / line-capture) snapshot: the frame variables collected at the trigger and the value
    captured when the function / line completes end up in ONE table - still closed, one object one id, and the frame's
    variables still resolve to the frame's objects after the capture has been merged in.
    PRE: 0 <= ci <= 4 and 0 <= kind <= 1 and 0 <= t <= 8
    POST: _ == ""
    """
    world.begin_path()
    from deep.api.tracepoint.trigger import LocationAction, LineLocation, FunctionLocation, Trigger, Location
    ci, kind, t = world.realize(ci), world.realize(kind), world.realize(t)
    f_locals = graphs.template(t, 2 if t not in (5, 6) else 0)
    value = CAPTURED[ci]()
    w = World()
    cfg = {"fire_count": -1, "fire_period": 0, "watches": [list(f_locals.keys())[0]],
           "stage": "method_capture" if kind == 0 else "line_capture"}
    act = LocationAction("tp1", None, cfg, LocationAction.ActionType.Snapshot)
    loc = FunctionLocation("f.py", "fn", Location.Position.CAPTURE) if kind == 0 else LineLocation("f.py", 7, Location.Position.CAPTURE)
    w.install([Trigger(loc, [act])])
    frame = FakeFrame("/app/f.py", "fn", 7, f_locals)
    w.event(frame, "call" if kind == 0 else "line", None)
    if len(w.push.snapshots) != 0:
        return "C07:capture:sent-before-completion"
    frame.f_lineno = 8
    if isinstance(value, Exception):
        w.event(frame, "exception", (type(value), value, None))
    else:
        w.event(frame, "return", value)
    world.reached()
    if len(w.push.snapshots) != 1:
        return "C07:capture:snapshot-not-delivered"
    s = w.push.snapshots[0]
    r = _check_table(s, f_locals, None)
    if r:
        return r
    r = reader.check_frame_fidelity(s, 0, f_locals, 1024, 10, 5, require_all_locals=True)
    if r:
        return "C07:capture:frame-variables-resolve-wrongly-after-merge:" + r
    caps = [x for x in s.watches if x.source == "CAPTURE"]
    if len(caps) != 1 or caps[0].result is None:
        return "C07:capture:result-missing"
    v = s.var_lookup[caps[0].result.vid]
    target = value.args if False else value
    if v.hash != str(id(target)) and not isinstance(value, Exception):
        return "C07:capture:result-is-another-object"
    return ""


class Job:
    def __init__(self, name, exc):
        self.name = name
        self.tags = ["t1", "t2"]
        self._exc = exc

    def __repr__(self):
        raise self._exc("job repr failed")


EXCS = [ValueError, RuntimeError, KeyboardInterrupt, SystemExit, GeneratorExit]
HW = ["QUEUE", "QUEUE[0].name", "QUEUE[0].tags", "[QUEUE[0]]", "QUEUE[0]", "len(QUEUE)"]


def hostile_watch(ek: int, w1: int, w2: int, w3: int, where: int) -> str:
    """
    A value reached only by watches whose str()/repr() raises (Exception or a BaseException subclass), followed by
    watches that reach its sub-objects: whatever becomes of the failing watch, every reference still resolves.
    PRE: 0 <= ek <= 4 and 0 <= w1 <= 5 and 0 <= w2 <= 5 and 0 <= w3 <= 5 and 0 <= where <= 1
    POST: _ == ""
    """
    world.begin_path()
    from deep.api.tracepoint.trigger import LocationAction, LineLocation, Trigger, Location
    ek, w1, w2, w3, where = [world.realize(x) for x in (ek, w1, w2, w3, where)]
    queue = [Job("alpha", EXCS[ek])]
    f_locals, f_globals = {"z": 1}, {}
    if where == 0:
        f_globals["QUEUE"] = queue          # reached by watches only (a module global)
    else:
        f_locals["QUEUE"] = queue           # also in the frame
    watches = [HW[w1], HW[w2], HW[w3]]
    w = World()
    cfg = {"fire_count": -1, "fire_period": 0, "watches": watches}
    act = LocationAction("tp1", None, cfg, LocationAction.ActionType.Snapshot)
    w.install([Trigger(LineLocation("f.py", 7, Location.Position.START), [act])])
    w.event(FakeFrame("/app/f.py", "fn", 7, f_locals, f_globals), "line", None)
    world.reached()
    if len(w.push.snapshots) != 1:
        return "C07:no-snapshot"
    s = w.push.snapshots[0]
    if [x.expression for x in s.watches] != watches:
        return "C07:watch-list"
    return _check_table(s, {"z": 1}, None)


FW = ["b * 3.5", "a + 1000", "a * 7.25", "n * 100000", "n + 99999", "s * 3", "s + 'zz'", "[a]", "(a, b)", "{'k': a}", "a", "n",
      # containers whose ELEMENTS are fresh temporaries, and sequences that produce their elements on demand
      "[n * 1000, n * 1001]", "(a * 3, b * 3)", "list(r0)[1:]", "r0"]
# built at import, outside the engine (under tracing `range(...)` yields CrossHair's own range model, not a range)
_R0 = range(1000, 1004)


def fresh_watches(w1: int, w2: int, w3: int, k: int) -> str:
    """
    Watches whose values are fresh temporaries (the result object dies as soon as the agent drops it): each watch result
    is still the value of ITS expression in the frame - two different objects never end up behind one id.
    PRE: 0 <= w1 <= 15 and 0 <= w2 <= 15 and 0 <= w3 <= 15 and 2 <= k <= 3
    PRE: k == 3 or w3 == 0
    POST: _ == ""
    """
    world.begin_path()
    w1, w2, w3, k = [world.realize(x) for x in (w1, w2, w3, k)]
    f_locals = {"a": 4.0, "b": 2.5, "n": 7, "s": "ab", "r0": _R0}
    watches = [FW[w1], FW[w2], FW[w3]][:k]
    snaps = _snapshot(f_locals, 1000, watches)
    world.reached()
    if len(snaps) != 1:
        return "C07:no-snapshot"
    s = snaps[0]
    if [x.expression for x in s.watches] != watches:
        return "C07:watch-list"
    for x in s.watches:
        val = eval(x.expression, {}, dict(f_locals))
        if x.result is None or x.result.vid not in s.var_lookup:
            return "C07:dangling-root-reference(frame-or-watch)"
        v = s.var_lookup[x.result.vid]
        texts = [reader.text_of(val)] + (["Size: %d" % len(val)] if isinstance(val, range) else [])
        if v.type != type(val).__name__ or v.value not in texts:
            return "C07:watch-result-is-another-object's-entry(id reused)"
        if isinstance(val, (list, tuple, range)):
            # whichever elements the agent lists for a sequence (it need not list any for kinds it does not know), each
            # listed child is named by an index and its entry shows THAT element - by value: the elements of a range (or
            # of a freshly built list) are temporaries, there is no lasting identity to compare
            for c in v.children:
                if not str(c.name).isdigit() or int(c.name) >= len(val) or c.vid not in s.var_lookup:
                    return "C07:watch-child-not-an-element"
                cv, el = s.var_lookup[c.vid], val[int(c.name)]
                if cv.type != type(el).__name__ or cv.value != reader.text_of(el):
                    return "C07:watch-child-shows-another-element's-value(id reused)"
    return _check_table(s, f_locals, None)


def _mut_id_reuse():
    from deep.processor.variable_set_processor import VariableCacheProvider

    def new_var_id(self, identity_hash_id):
        new_id = str(max(self.size, 1))
        self._VariableCacheProvider__cache[identity_hash_id] = new_id
        return new_id
    VariableCacheProvider.new_var_id = new_var_id


def _mut_no_dedup():
    from deep.processor.variable_set_processor import VariableCacheProvider
    VariableCacheProvider.check_id = lambda self, h: None


def _mut_merge_drops():
    from deep.api.tracepoint.eventsnapshot import EventSnapshot
    EventSnapshot.merge_var_lookup = lambda self, lookup: None


def _mut_no_keep_alive():
    from deep.processor.variable_set_processor import VariableCacheProvider
    VariableCacheProvider.keep_alive = lambda self, value: None


MUTANTS = {"no_keep_alive": _mut_no_keep_alive, "id_reuse": _mut_id_reuse, "no_dedup": _mut_no_dedup, "merge_drops": _mut_merge_drops}

CONDITIONS = [
    dict(fn="table", cubes={"quick": ["t == %d and n == %d and wi == %d" % (t, 0 if t in (5, 6) else 2, w) for t in range(9) for w in (0, 1, 2, 7)],
                            "thorough": ["t == %d and n == %d and wi == %d" % (t, n, w) for t in range(9) for n in ((0,) if t in (5, 6) else (1, 2, 3)) for w in range(8)]},
         twins=["reach", "mutant:id_reuse@t == 5 and n == 0 and wi == 7", "mutant:no_dedup@t == 5 and n == 0 and wi == 7", "mutant:merge_drops@t == 0 and n == 2 and wi == 1"],
         timeout={"quick": 420, "thorough": 900},
         bounds="9 graph templates (incl. shared and cyclic) x 8x8 watch pairs (quick: first watch from 4) x UNBOUNDED symbolic max_variables"),
    dict(fn="capture_table", cubes=["ci == %d and kind == %d" % (c, k) for c in range(5) for k in range(2)], twins=["reach"],
         bounds="5 captured values (nested list, dict, exception with args, scalar, nested tuple) x method/line capture x 9 graph templates for the frame"),
    dict(fn="hostile_watch", cubes={"quick": ["ek == %d and where == %d and w3 == 1" % (e, wh) for e in range(5) for wh in range(2)],
                                    "thorough": ["ek == %d and where == %d" % (e, wh) for e in range(5) for wh in range(2)]},
         twins=["reach"], timeout={"quick": 420, "thorough": 900},
         bounds="a list holding an object whose __repr__ raises one of 5 exception classes (2 Exception, 3 BaseException-only), as module global (watch-only) or local; "
                "all 6^2 pairs (thorough 6^3 triples) of watches over it and its sub-objects"),
    dict(fn="fresh_watches", cubes={"quick": ["k == 2 and w1 %s" % a for a in ("<= 3", "in (4, 5, 6, 7)", "in (8, 9, 10, 11)", ">= 12")] + ["k == 3 and w1 == 14 and w2 == 15", "k == 3 and w1 == 0 and w2 == 1", "k == 3 and w1 == 3 and w2 == 4"],
                                    "thorough": ["k == 3 and w1 == %d and w2 == %d" % (a, b) for a in range(16) for b in (0, 3, 5, 7, 9, 12, 14, 15)]},
         twins=["reach", "mutant:no_keep_alive@k == 2 and w1 <= 3"], bounds="all pairs (thorough: triples) of 16 watch expressions producing fresh floats / ints / strings / containers of temporaries / ranges over 5 locals"),
    dict(fn="self_ref", cubes=["kind == %d" % k for k in range(3)], twins=["reach"],
         bounds="locals containing the locals mapping directly / inside a list / reached by the watch 'locals()'; symbolic max_variables"),
]
