"""C13 Registering a tracepoint in code returns a handle that removes exactly it."""
from vlib import world
from vlib.world import World, FakeFrame

PROPERTY = "C13"
FUNCTIONS = ["Deep.register_tracepoint", "TracepointRegistration.unregister", "TracepointConfigService.add_custom/remove_custom/"
             "update_new_config/update_listeners", "TriggerHandler.new_config/trace_call", "convert_response"]
STUBS = ["Deep instance constructed directly around the real ConfigService (no gRPC / thread pool)", "inline task handler",
         "FakeFrame", "RecPush", "logging -> no-op"]


class InlineTasks:
    class F:
        def add_done_callback(self, cb):
            cb(self)

        def exception(self):
            return None

    def submit_task(self, task, *args):
        task(*args)
        return InlineTasks.F()


def _pb_tp(tp_id, line):
    from deepproto.proto.tracepoint.v1.tracepoint_pb2 import TracePointConfig
    return TracePointConfig(ID=tp_id, path="f.py", line_number=line, args={"fire_count": "-1", "fire_period": "0"},
                            watches=["svc_" + tp_id], metrics=[])


SERVICE_SETS = [[], [("S1", 7)], [("S1", 7), ("S2", 8)]]


def _run(ops):
    """ops: list of (op, arg). Returns failure signature or ''."""
    from deep.api.deep import Deep
    from deep.grpc import convert_response
    from deep.api.tracepoint.tracepoint_config import MetricDefinition
    w = World()
    w.tps.set_task_handler(InlineTasks())
    d = Deep(w.config)                       # the real constructor (nothing is started); it installs its own task handler:
    w.tps.set_task_handler(InlineTasks())    # updates are applied inline for this sequential property
    handles = []          # (handle, tag, line, alive)
    service = []
    n_reg = 0
    for (op, arg) in ops:
        if op in (0, 1):
            line = 7 if op == 0 else 8
            tag = "t%d" % n_reg
            n_reg += 1
            metrics = [MetricDefinition("m_" + tag, "COUNTER")] if arg == 1 else None
            args = {"fire_count": "-1", "fire_period": "0", "snapshot": "collect"}
            if arg == 2:
                args["method_name"] = "f"           # a method tracepoint in the same file
            if arg == 3:
                args = {"snapshot": "no_collect"}   # a registration without any action
                tag = None
            if arg == 4:
                tag = "dup"                         # called again with exactly the arguments of an earlier call: a NEW registration
            h = d.register_tracepoint("f.py", line, args, [tag] if tag else [], metrics)
            handles.append([h, tag, line, True, arg == 1])
        elif op == 2:
            if handles:
                j = arg % len(handles)
                try:
                    handles[j][0].unregister()
                except Exception as e:
                    return "C13:unregister-raised:" + type(e).__name__
                handles[j][3] = False
        else:
            service = SERVICE_SETS[arg % 3]
            w.tps.update_new_config(1, "h%d" % arg, convert_response([_pb_tp(i, ln) for (i, ln) in service]))
        # structural observation after every operation
        want = sorted(["svc_" + i for (i, _) in service] + [h[1] for h in handles if h[3] and h[1]])
        n_custom_installed = len([t for t in w.handler._tp_config if any(t is c for c in w.tps._custom)])
        if n_custom_installed != len([h for h in handles if h[3]]):
            return "C13:number-of-installed-registrations-differs"
        got = []
        for trig in w.handler._tp_config:
            for a in trig.actions:
                if a.action_type.name == "Snapshot":
                    got += list(a.config.get("watches", []))
        if sorted(got) != want:
            dead = [h[1] for h in handles if not h[3] and h[1]]
            if any(t in got for t in dead):
                return "C13:unregistered-tracepoint-still-installed"
            if any(h[1] not in got for h in handles if h[3] and h[1]):
                return "C13:wrong-registration-removed-or-lost"
            return "C13:service-tracepoints-disturbed"
    # behavioural observation at the end: drive both lines, see who acts, with its watches and metrics
    world.reached()
    w.event(FakeFrame("/app/f.py", "f", 5, {"x": 1}), "call", None)
    w.event(FakeFrame("/app/f.py", "f", 7, {"x": 1}), "line", None)
    w.event(FakeFrame("/app/f.py", "f", 8, {"x": 1}), "line", None)
    acted = sorted(wr.expression for s in w.push.snapshots for wr in s.watches)
    want = sorted(["svc_" + i for (i, _) in service] + [h[1] for h in handles if h[3] and h[1]])
    if acted != want:
        return "C13:active-set-differs-at-the-end"
    return ""


def _decode(c):
    """one op code per step: 0 reg L7, 1 reg L8, 2..4 unregister handle 0..2, 5..7 service update to set 0..2, 8 reg L7 with a metric,
    9 reg method f (same file), 10 reg L7 without any action, 11 reg L7 with the same arguments every time."""
    if c == 11:
        return (0, 4)
    if c == 9:
        return (0, 2)
    if c == 10:
        return (0, 3)
    if c == 0:
        return (0, 0)
    if c == 1:
        return (1, 0)
    if c in (2, 3, 4):
        return (2, c - 2)
    if c in (5, 6, 7):
        return (3, c - 5)
    return (0, 1)


def history3(c1: int, c2: int, c3: int) -> str:
    """
    Every history of three operations over {register on line 7 (with/without metric), register on line 8, unregister
    handle j (again allowed), service update}: installed = service set + registered - unregistered (by handle), after
    every operation, and the same set acts when the lines are reached.
    PRE: 0 <= c1 <= 11 and 0 <= c2 <= 11 and 0 <= c3 <= 11
    POST: _ == ""
    """
    world.begin_path()
    v = [world.realize(x) for x in (c1, c2, c3)]
    return _run([_decode(c) for c in v])


def history4(c1: int, c2: int, c3: int, c4: int) -> str:
    """
    Histories of four operations.
    PRE: 0 <= c1 <= 11 and 0 <= c2 <= 11 and 0 <= c3 <= 11 and 0 <= c4 <= 11
    POST: _ == ""
    """
    world.begin_path()
    v = [world.realize(x) for x in (c1, c2, c3, c4)]
    return _run([_decode(c) for c in v])


def history5(c3: int, c4: int, c5: int, c2: int) -> str:
    """
    Histories of five operations starting with a registration on line 7 then a registration on line 7 or 8.
    PRE: 0 <= c2 <= 1 and 0 <= c3 <= 7 and 0 <= c4 <= 7 and 0 <= c5 <= 7
    POST: _ == ""
    """
    world.begin_path()
    v = [world.realize(x) for x in (c2, c3, c4, c5)]
    return _run([_decode(0)] + [_decode(c) for c in v])


def _mut_remove_by_location():
    from deep.config.tracepoint_config import TracepointConfigService

    def add_custom(self, path, line, args, watches, metrics):
        from deep.api.tracepoint.trigger import build_trigger
        config = build_trigger("tp-x%d" % len(self._custom), path, line, args, watches, metrics)
        self._custom.append(config)
        self._TracepointConfigService__trigger_update(None, None)
        return config.id

    def remove_custom(self, _id):
        for idx, cfg in enumerate(self._custom):
            if cfg.id == _id:
                del self._custom[idx]
                self._TracepointConfigService__trigger_update(None, None)
                return
    TracepointConfigService.add_custom = add_custom
    TracepointConfigService.remove_custom = remove_custom


def _mut_remove_all_at_location():
    from deep.config.tracepoint_config import TracepointConfigService
    orig = TracepointConfigService.remove_custom

    def remove_custom(self, _id):
        victim = None
        for c in self._custom:
            for a in c.actions:
                if a.id == _id:
                    victim = c
        orig(self, _id)
        if victim is not None:
            self._custom[:] = [c for c in self._custom if c.id != victim.id]
            self._TracepointConfigService__trigger_update(None, None)
    TracepointConfigService.remove_custom = remove_custom


MUTANTS = {"remove_by_location": _mut_remove_by_location, "remove_all_at_location": _mut_remove_all_at_location}

CONDITIONS = [
    dict(fn="history3", cubes=["c1 == %d and c2 %s" % (a, b) for a in range(12) for b in ("<= 4", ">= 5")],
         twins=["reach", "mutant:remove_by_location@c1 == 0 and c2 <= 4", "mutant:remove_all_at_location@c1 == 0 and c2 <= 4"],
         bounds="all 12^3 histories of 3 operations (register L7 / L8 / L7+metric / method f in the same file / L7 without actions / L7 with identical arguments each time, unregister handle 0..2, service update to one of 3 sets)"),
    dict(fn="history4", cubes={"quick": ["c1 == %d and c2 == %d and c3 %s" % (a, b, c) for (a, b) in ((0, 0), (0, 1), (9, 0), (10, 10), (11, 11), (11, 2)) for c in ("<= 3", "in (4,5,6,7)", ">= 8")],
                               "thorough": ["c1 == %d and c2 == %d" % (a, b) for a in range(12) for b in range(12)]},
         twins=["reach"], bounds="histories of 4 operations: quick = those starting (L7,L7), (L7,L8), (method,L7), (no-action,no-action), (identical,identical), (identical,unregister); thorough = all 12^4"),
    dict(fn="history5", cubes={"quick": ["c2 == 0 and c3 == 2 and c4 == 0", "c2 == 0 and c3 == 2 and c4 == 1", "c2 == 1 and c3 == 3 and c4 == 0", "c2 == 0 and c3 == 0 and c4 == 0"], "thorough": ["c2 == %d and c3 == %d" % (a, b) for a in range(2) for b in range(8)]},
         twins=[], bounds="histories of 5 operations starting register L7, register L7|L8 (quick: register, register, unregister one, register, any - and four registrations on one line followed by any operation; thorough: all)"),
]
