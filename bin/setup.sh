#!/bin/sh
# Idempotent: build /verif/.venv = overlay on /venv (deep, grpc, protobuf visible) + crosshair-tool from the wheelhouse.
set -e
V="$(cd "$(dirname "$0")/.." && pwd)"
if [ -x "$V/.venv/bin/python" ] && "$V/.venv/bin/python" -c 'import crosshair, deep, z3' 2>/dev/null; then
  exit 0
fi
exec 9>"$V/.venv.lock"
flock 9
if [ -x "$V/.venv/bin/python" ] && "$V/.venv/bin/python" -c 'import crosshair, deep, z3' 2>/dev/null; then
  exit 0
fi
rm -rf "$V/.venv"
/venv/bin/python -m venv "$V/.venv"
SP="$("$V/.venv/bin/python" -c 'import site; print(site.getsitepackages()[0])')"
echo "import site; site.addsitedir('/venv/lib/python3.12/site-packages')" > "$SP/_verif_overlay.pth"
PIP_NO_INDEX=1 "$V/.venv/bin/pip" install -q --no-index --find-links /opt/veriftools/wheels crosshair-tool >/dev/null
"$V/.venv/bin/python" -c 'import crosshair, deep, z3; print("verif venv ready", deep.__file__)'
