#!/usr/bin/env python3
import json,sys,os
for n in sys.argv[1:]:
    p='/verif/seeded/%s/meta.json'%n
    if not os.path.exists(p): print(n,'NO META'); continue
    m=json.load(open(p))
    print(n,'confirmed=',m.get('confirmed'),'demo',m.get('demo_without_change'),m.get('demo_with_change'),'tests:',m.get('unit_tests_with_change'),'| detected_by',m['detected_by'],[ (c,r['exit'],r['wall_s']) for c,r in m['checks'].items()], [l[:160] for r in m['checks'].values() for l in r['lines'] if 'signature' in l or 'HARNESS' in l][:2])
