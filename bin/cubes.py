#!/usr/bin/env python3
import json,sys
e=json.load(open('/verif/evidence/%s.json'%sys.argv[1]))
for c in e['coverage']['cubes']:
    print(c['cond'],c['pre'],c['mode'],c['verdict'],'paths',c['paths'],'q',c['queries'],'wall',c['wall_s'],(c.get('message') or '')[:200], c.get('replay_result',''))
for h in e['coverage']['harness_errors']: print('HE',h[:800])
