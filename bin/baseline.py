#!/usr/bin/env python3
"""Run the repo's pinned test suite and compare with /root/.vp/BASELINE.json stable_pass. exit 0 iff all stable tests pass."""
import json, subprocess, sys, os, tempfile, xml.etree.ElementTree as ET
d = os.path.join(os.path.dirname(os.path.dirname(os.path.abspath(__file__))), ".work")
os.makedirs(d, exist_ok=True)
x = os.path.join(d, "baseline.junit.xml")
subprocess.run("cd /repo && /venv/bin/python -m pytest -ra -q -p no:cacheprovider --timeout=900 --continue-on-collection-errors --junitxml=%s >/dev/null 2>&1" % x, shell=True)
base = json.load(open("/root/.vp/BASELINE.json"))
ok = set()
for tc in ET.parse(x).getroot().iter("testcase"):
    if not any(c.tag in ("failure", "error", "skipped") for c in tc):
        ok.add("%s::%s" % (tc.get("classname"), tc.get("name")))
missing = [t for t in base["stable_pass"] if t not in ok]
print("stable_pass: %d, passing now: %d, missing: %d" % (len(base["stable_pass"]), len(ok), len(missing)))
for m in missing: print("  MISSING", m)
sys.exit(1 if missing else 0)
