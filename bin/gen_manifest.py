#!/usr/bin/env python3
"""Regenerate MANIFEST.json from the table below (keeps it schema-valid at all times)."""
import json
import os

ROOT = os.path.dirname(os.path.dirname(os.path.abspath(__file__)))
TECH = "bounded symbolic execution of the real Python code (CrossHair 0.0.110 + z3), cube-split; counterexamples replayed concretely"
NOTE = ("Trusted base: CrossHair's symbolic models of Python builtins (every counterexample is re-run concretely against "
        "the real code before it is reported), z3, and the environment stubs listed in the evidence (fake frames, scripted "
        "clock, recording push service/plugins). Claim holds only within the bounds listed in evidence.coverage.bounds.")

CHECKS = {
    "C04": ("§5 C04", "All feasible paths of the real limiter code (trace_call -> ActionContext -> LocationAction) for k<=3 (4 thorough) hits at "
            "unbounded symbolic instants and unbounded symbolic fire_count/fire_period, plus an inductive step from an arbitrary limiter "
            "state (covers histories of any length), textual/unparsable limits, defaults, the window, and every action kind (snapshot, log, metric, span, capture) under the same limiter; configuration updates between the hits of a registered tracepoint leave its limits untouched; exact agreement with a reference "
            "limiter (safety and liveness half). Concurrent hits: 3 threads on the statement-stepped handler, one pre-emption at a symbolic step; the one schedule of the recorded finding is excluded, every other is checked - also with threads whose clock readings differ under a non-zero period."),
}
CHECKS["C03"] = ("§5 C03", "All feasible paths of the real matching code (location_from_event, *Location.at_location, __actions_for_location, "
    "build_trigger, convert_response, add_custom) for 1-3 tracepoints and 1-2 events: a tracepoint acts iff the documented match holds, every "
    "matching tracepoint acts exactly once with every action kind, nothing else happens. Line numbers unbounded where the code only compares them; "
    "paths as free symbolic strings <= 4 chars; method tracepoints against plain and qualified code-object names; a tracepoint on the lines after one that leaves deferred work (span / capture) still acts exactly once.")
CHECKS["C10"] = ("§5 C10", "All feasible paths of the real condition/expression code for 3 hits with symbolic per-hit truth, unbounded fire_count and "
    "11 condition flavours (failing ones raise exceptions with a free symbolic message; two fail on some hits and hold on others); name visibility of 9 names (local, host global, builtin, agent-only) "
    "and 4 expressions with significant white space at the 4 evaluation sites (watch, log field, metric label, condition) against Python's own eval in the frame scope; failing-expression isolation.")
CHECKS["C11"] = ("§5 C11", "build_trigger decided over FREE symbolic strings for stage/snapshot/span/method_name/log_msg/condition against a reference table "
    "(location kind, exact action set, per-action id/condition/limits/watches); then the tracepoint is installed through convert_response or add_custom and the "
    "matching event driven through the real handler: observed effects equal the table; per-action condition and fire budget; 3-tracepoint responses with "
    "same-location and uninterpretable members; the table is decided after an earlier tracepoint with explicit non-default arguments was built (history independence); definitions sharing a name stay separate.")
CHECKS["C13"] = ("§5 C13", "Every history of 3 (quick) / 4-5 (thorough) operations over register (two lines, with/without metrics), unregister by handle "
    "(repeats allowed) and service updates, run through the real Deep.register_tracepoint / TracepointRegistration / TracepointConfigService / TriggerHandler: "
    "after every operation the installed set equals a multiset model, and the same set acts when the lines are reached. Deep is built through its real constructor; registrations with identical arguments are separate registrations; five registrations on one line. Histories are enumerated by the solver (finite op alphabet).")
CHECKS["C16"] = ("§5 C16", "Every template of 0..2 segments (3 thorough; 4 in slices) over a 12-kind segment alphabet (literals with %/:/!/non-ASCII, doubled braces, "
    "7 field expressions incl. failing ones) driven through the real handler on log-only and snapshot+log tracepoints, 1-3 hits: message text equals an independent "
    "renderer, one logger call per permitted hit labelled (tracepoint id, context id) in their places, snapshot.log_msg and LOG-source watches agree; the built-in PythonPlugin logger emits exactly that text through logging; every LOG watch resolves to its own field's value (temporaries of equal size); failing fields render the exception's own text (KeyError, OSError); the message stays complete when the variable budget runs out.")
CHECKS["C17"] = ("§5 C17", "Metric tracepoints delivered as real protobuf definitions through convert_response and driven through the real handler: per permitted hit "
    "and per processor one call per definition via the operation named by its type, with name/namespace(default deep)/help/unit, labels (static/expression/failing), "
    "value = expression as number or 1; no processor => nothing reported and no budget used; values on which float() overflows or raises do not disturb the next definition; expressions that consume application state run once per definition and hit whatever the number of processors; definitions sharing a name are separate metrics; labels are reported also when the value expression fails. Selector spaces enumerated by the solver.")
CHECKS["C18"] = ("§5 C18", "Inductive step of the real BoundedAttributes (one of 7 operations from any of 16 ordered states, symbolic drop counter, free symbolic string "
    "values against the value limit, 5 capacities, frozen/not) against a reference model - covers operation histories of any length over the modelled key set; value "
    "cleaning over 17 value shapes with symbolic elements; construction/eviction; Resource.merge chains (precedence also for '' / 0 / False values, schema rule, operands unchanged); Resource.create + "
    "detector + Deep.start plugin merge under a controlled environment, and the resource carried by the real PollRequest.")
CHECKS["C19"] = ("§5 C19", "The real ConfigService lookup chain over 6 keys x 10 code-value kinds (incl. partial, bound method, built-in, callable object) x environment presence (deep.config re-executed against a fake "
    "environment); application-frame classification and short path over FREE symbolic file names and include/exclude prefixes against a reference (exclusion wins, prefix "
    "semantics), after another configuration object was asked about the same file; list settings spelt with blanks / trailing commas; code-vs-environment equivalence of every documented key observed through the real consumers (LongPoll timer construction, GRPCService channel choice, "
    "is_app_frame, AuthProvider, deep.start).")
CHECKS["C05"] = ("§5 C05", "Snapshots of 9 graph templates collected by the real FrameCollector/VariableSetProcessor/BFS under SYMBOLIC limits (max_variables, "
    "max_collection_size, max_var_depth unbounded; the solver partitions them against the graph; max_string_length 0..8): budget, string cut + truncated flag, per-collection "
    "cap, depth cap, truthful content, breadth-first spending of the budget (level order against an independent BFS of the real objects), locals never crowded out, everything "
    "within limits collected; two declaration orders (four thorough); the string kernel over 4 alphabets (NUL, control, non-BMP).")
CHECKS["C06"] = ("§5 C06", "43 kinds of awkward values (no __dict__, non-str keys, iterators/generators, dunder methods raising any of 6 exception classes incl. "
    "BaseException subclasses, invalid UTF-8 text) at 6 positions (local, local named self, list element, dict value, attribute, watch-only), 1-3 snapshot tracepoints on the line, through the "
    "real handler/collector and the real protobuf conversion: one converting snapshot per tracepoint, every other variable intact (independent reader), the value has an entry "
    "with its real type name, tables closed with no foreign entries, no two snapshots of one event share a table; a tracepoint failing for a reason of its own (7 kinds) does not cost its siblings on the line their snapshots. Selector space enumerated by the solver.")
CHECKS["C02"] = ("§5 C02", "Snapshots produced by the real handler/collector for stacks of 1-3 frames (files inside/outside app root, include and exclude prefixes; "
    "self absent/instance/None), top-frame locals from graph templates (nested, shared, cyclic, objects with private attributes, exceptions, tuple subclasses / structseq, unorderable dict keys, a range; every child the caps allow is listed), 5 frame_type settings, "
    "0-2 watches, line and method tracepoints, compared field by field with an independent reader of the same objects (type names, text, children, de-mangled names, "
    "identity), plus tracepoint identity/arguments, timestamp and resource. Selector space enumerated by the solver.")
CHECKS["C07"] = ("§5 C07", "Snapshots of graph templates with sharing and cycles plus two watches (frame locals, fresh containers of existing objects, fresh scalars, "
    "failing) under a SYMBOLIC variable budget, produced by the real collector: every frame/child/watch reference resolves in the snapshot's own table, one object one id, "
    "distinct objects distinct ids (identity through the recorded hash), table no larger than the number of distinct objects (cycles end in back-references).")
CHECKS["C15"] = ("§5 C15", "Well-formed sys.settrace event streams generated from choice vectors (line, call f/g, return, caught and propagating exceptions; 3 "
    "choices quick, 4-5 thorough; recursion included) delivered to the real handler with 8 subsets of {method span, line span, method-capture, line-capture}: a monitor "
    "checks every opening is completed exactly once, after it, within its invocation, captures carry that invocation's result, nothing stays pending; two sequential "
    "threads with fresh or reused ident. Streams enumerated by the solver; three recorded findings are excluded by predicate.")
CHECKS["C14"] = ("§5 C14", "Histories of 2-3 (thorough 3-4) start/shutdown calls on the real Deep / TriggerHandler / LongPoll with recording stand-ins for sys, threading, "
    "the timer, the poll stub, grpc, plugins and the task handler: hooks (sys.settrace, threading.settrace, settrace_all_threads incl. the trace function of an already-running thread) installed once per start and restored exactly (untouched under 7 NO_TRACE spellings), one running timer while "
    "started and none after, delivery drained and every plugin shut down exactly once per shutdown under any failure subset, started flag truthful; plugins are loaded once per effective start; the real LongPoll/RepeatedTimer start one daemon thread per start and set the stop event before joining it. Enumerated by the solver.")
CHECKS["C20"] = ("§5 C20", "The real load_plugins over three custom plugin classes (importable / missing / constructor raises, activation by 8 configuration values incl. bools on which is_active() itself fails, "
    "UNBOUNDED symbolic order values incl. ties) against 'importable and constructible and active, stably sorted'; and fault isolation: two plugins of each of 5 types, one or both "
    "failing (raising, or answering with the wrong kind of object) in each of 7 callbacks (resource, decorate, log, create_span, close, metric, shutdown) through the real Deep.start / handler / Deep.shutdown - the healthy "
    "plugin's calls, the delivered snapshot and its decorations, span closing and shutdown attempts are all preserved.")
CHECKS["C01"] = ("§5 C01", "Reduction of host transparency to the trace-function contract (may affect the host only by raising, by its return value, or by mutating "
    "reachable objects) checked on the real handler: 10 tracepoint configurations x scripts of 3-4 events x hostile values (33 kinds, 6 exception classes incl. BaseException "
    "subclasses) in locals / return value / exception argument, and fault injection at a SYMBOLIC call index among the agent's calls into its sub-components and environment "
    "(the solver partitions the index over the calls actually made), both fault classes: nothing is raised, tracing stays on, locals untouched, iterators not advanced, the process-wide random generator not drawn from, interpreter-wide settings (gc, recursion limit, sys.path, environ, ...) unchanged also for a host that disabled the collector, and a "
    "later benign run over the same tracepoints still produces every effect (no poisoned per-thread state); no agent-level container of deep.* grows with the number of hits.")
CHECKS["C08"] = ("§5 C08", "Field-by-field equality (walking the real protobuf descriptors, so a new or dropped field is noticed) between harness-assembled "
    "snapshots (0-2 frames, 0-3 table entries with children, good/error watches from 4 sources, 12 attribute value shapes, optional fields present/absent, boundary numeric "
    "values, one string field at a time replaced by empty / non-ASCII / control / long text, or - in collector-filled fields - text with lone surrogates) and the message produced by the real convert_snapshot, plus serialise/parse "
    "round trip; poll and send requests carry exactly the auth provider's metadata for 4 provider and 4 credential configurations.")
CHECKS["C09"] = ("§5 C09", "The real TaskHandler.submit_task (with its completion callback), flush, __check_open and PushService.push_snapshot, statement-stepped "
    "from the current source and run as threads (application thread + 2 pool workers on a simulated FIFO executor) under a context-bounded scheduler whose pre-emption point "
    "is a SYMBOLIC step index (the solver partitions it over the steps actually taken): every accepted task runs exactly once on a worker, failures are contained, flush "
    "returns normally only after every earlier task finished, submissions after flush are refused visibly, nothing stays pending; two application threads (push + flush, flush + flush) with one or two pre-emptions; three pushes with a task completing between two of them; the real _push_task hands every snapshot to the service exactly once whatever the send does.")
CHECKS["C12"] = ("§5 C12", "LongPoll.poll, TracepointConfigService (update_new_config, __trigger_update, update_listeners, add_custom, remove_custom) and "
    "TaskHandler.submit_task statement-stepped from the current source and run as driver thread + 2 pool workers under a context-bounded scheduler with a SYMBOLIC "
    "pre-emption step: for histories of 2-3 (thorough 3-4) operations over UPDATE x3 / NO_CHANGE / failing / unintelligible poll, register, unregister, at quiescence the "
    "installed set is the last UPDATE plus live registrations and the next poll reports the last UPDATE's hash. A second condition uses TWO pre-emptions (to a worker at a symbolic step, back to the driver 1-10 steps later) so that an operation "
    "arrives while a worker is in the middle of an update. The real RepeatedTimer loop around the real poll survives every kind of failing poll (incl. an UPDATE that cannot be converted) without changing what is installed or reported.")
PENDING = {}

def main():
    props = [json.loads(l) for l in open(os.path.join(ROOT, "properties.jsonl"))]
    checks, na = [], []
    for p in props:
        pid = p["id"]
        if pid in CHECKS:
            ref, text = CHECKS[pid]
            checks.append({
                "property_id": pid,
                "quick_cmd": "bin/vcheck %s --tier quick" % pid,
                "thorough_cmd": "bin/vcheck %s --tier thorough" % pid,
                "evidence_file": "evidence/%s.json" % pid,
                "replay_cmd_template": "bin/vcheck replay {path}",
                "engine": "crosshair-z3",
                "level_claimed": {"category": "model_checking", "text": text, "design_ref": ref},
                "level_note": NOTE,
                "technique": TECH,
            })
        else:
            na.append({"property_id": pid, "reason": PENDING.get(pid, "check not built yet in this revision (planned: DESIGN.md §5 %s); not claimed until its harness exists" % pid)})
    m = {
        "version": 1,
        "setup_cmd": "bin/setup.sh",
        "hooks": {"guard": "DEEP_PYTHON_CLIENT_VERIF", "enable": "no source hooks: harnesses rebind names in the imported deep.* modules at run time",
                  "baseline_off_cmd": "cd /repo && /venv/bin/python -m pytest -ra -q -p no:cacheprovider --timeout=900 --continue-on-collection-errors",
                  "source_commits": [], "add_only": True},
        "engines": [{"name": "crosshair-z3", "path": "vlib/cube_runner.py", "serves_properties": sorted(CHECKS),
                     "kind_free_text": "CrossHair 0.0.110 symbolic execution of the real deep.* modules with z3 5.1; one process per cube; driver vlib/main.py"}],
        "checks": checks,
        "notes": "exit 0 held / 1 VIOLATION (reproduced concretely) / 2 harness or engine error. known_findings.json lists recorded genuine defects.",
        "not_applicable": na,
    }
    json.dump(m, open(os.path.join(ROOT, "MANIFEST.json"), "w"), indent=1)
    print("MANIFEST: %d checks, %d not claimed" % (len(checks), len(na)))

if __name__ == "__main__":
    main()
