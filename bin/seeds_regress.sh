#!/bin/sh
# re-run every kept seed against its property's quick check (sequential: each applies its patch to /repo and undoes it)
cd "$(dirname "$0")/.."
for d in seeded/*/; do
  n=$(basename $d)
  p=$(echo $n | cut -c1-3)
  extra="--skip-confirm"
  [ "$1" = "confirm" ] && extra=""
  if grep -q '"ported"' $d/meta.json 2>/dev/null; then extra="$extra --ported"; fi
  wt=/tmp/seed/$p; echo $n | grep -q r2 && wt=/tmp/seed2/$p
  bin/try_seed.py $p --worktree $wt --name $n $extra > .work/regress_$n.log 2>&1
  bin/seed_summary.py $n | cut -c1-260
done
