#!/bin/sh
# run every check (tier = $1, default quick), print one summary line each
TIER=${1:-quick}
cd "$(dirname "$0")/.."
# optional 2nd argument: the ids to run, e.g. "12 13 14"
IDS=${2:-01 02 03 04 05 06 07 08 09 10 11 12 13 14 15 16 17 18 19 20}
for i in $IDS; do
  S=$(date +%s)
  OUT=$(bin/vcheck C$i --tier $TIER 2>&1); RC=$?
  E=$(date +%s)
  echo "C$i rc=$RC $((E-S))s $(echo "$OUT" | grep -c '^KNOWN-FINDING') known | $(echo "$OUT" | grep -E 'VIOLATION|HARNESS-ERROR' | head -2 | cut -c1-160)"
done
