#!/usr/bin/env python3
"""Confirm a seeded breaking change and run our check against it.

usage: bin/try_seed.py <Cxx> [--worktree /tmp/seed/Cxx] [--name <dir under seeded/>] [--tier quick] [--checks C01,C06]

1. in the seeder's scratch worktree: demo fails with the change, passes without; unit tests pass with the change
2. apply the patch to /repo, run the check(s), undo (git checkout), restore the committed evidence files
3. store patch.diff / demo.py / notes.txt / meta.json under /verif/seeded/<name>/
"""
import argparse
import json
import os
import shutil
import subprocess
import sys
import time

ROOT = os.path.dirname(os.path.dirname(os.path.abspath(__file__)))


def sh(cmd, cwd=None, timeout=3600, env=None):
    p = subprocess.run(cmd, shell=True, cwd=cwd, capture_output=True, text=True, timeout=timeout, env=env)
    return p.returncode, (p.stdout + p.stderr)


def main():
    ap = argparse.ArgumentParser()
    ap.add_argument("prop")
    ap.add_argument("--worktree")
    ap.add_argument("--name")
    ap.add_argument("--tier", default="quick")
    ap.add_argument("--checks")
    ap.add_argument("--skip-confirm", action="store_true")
    ap.add_argument("--ported", action="store_true", help="seeded/<name>/patch.diff was ported by hand to the current HEAD: do not overwrite it")
    a = ap.parse_args()
    wt = a.worktree or "/tmp/seed/%s" % a.prop
    name = a.name or a.prop
    out = os.path.join(ROOT, "seeded", name)
    os.makedirs(out, exist_ok=True)
    meta = {"property": a.prop, "name": name, "ran": []}
    old_meta_path = os.path.join(out, "meta.json")
    if a.skip_confirm and os.path.exists(old_meta_path):
        old = json.load(open(old_meta_path))
        for k_ in ("demo_without_change", "demo_with_change", "demo_output_with_change", "unit_tests_with_change", "confirmed",
                   "needs_to_manifest", "breaks_property", "origin", "ported"):
            if old.get(k_) is not None:
                meta[k_] = old[k_]
        meta["ran"] = [r for r in old.get("ran", []) if r.startswith("demo ")]
    if a.ported:
        meta["ported"] = "the seeder's patch no longer applied after a later fix: commit touched the same lines; re-applied by hand to the current HEAD (same change)"
    so = os.path.join(wt, "seed_out")
    if os.path.isdir(so):
        for f in (("demo.py", "notes.txt") if a.ported else ("patch.diff", "demo.py", "notes.txt")):
            if os.path.exists(os.path.join(so, f)):
                shutil.copy(os.path.join(so, f), os.path.join(out, f))
    patch = os.path.join(out, "patch.diff")
    demo = os.path.join(out, "demo.py")
    assert os.path.getsize(patch) > 0, "empty patch"
    rc, o = sh("git -C /repo status --porcelain")
    assert o.strip() == "", "/repo is not clean: " + o
    if not a.skip_confirm:
        # ---- confirm in a fresh scratch worktree of /repo HEAD (not the seeder's own)
        scratch = "/tmp/seedconfirm_%s" % name
        sh("git -C /repo worktree remove --force %s" % scratch)
        rc, o = sh("git -C /repo worktree add --detach %s HEAD" % scratch)
        assert rc == 0, o
        try:
            env = dict(os.environ, PYTHONPATH=scratch + "/src")
            rc0, o0 = sh("/venv/bin/python %s" % demo, cwd=scratch, env=env, timeout=600)
            meta["demo_without_change"] = rc0
            rc, o = sh("git apply %s" % patch, cwd=scratch)
            assert rc == 0, "patch does not apply: " + o
            rc1, o1 = sh("/venv/bin/python %s" % demo, cwd=scratch, env=env, timeout=600)
            meta["demo_with_change"] = rc1
            meta["demo_output_with_change"] = o1[-600:]
            rct, ot = sh("/venv/bin/python -m pytest -q -p no:cacheprovider --timeout=900 tests/unit_tests "
                         "--deselect tests/unit_tests/api/plugin/metrics/test_otel_metrics.py 2>&1 | tail -3", cwd=scratch, timeout=1800)
            meta["unit_tests_with_change"] = ot.strip().splitlines()[-1] if ot.strip() else ""
            meta["ran"].append("demo without change (exit %d), demo with change (exit %d), unit tests with change: %s"
                               % (rc0, rc1, meta["unit_tests_with_change"]))
        finally:
            sh("git -C /repo worktree remove --force %s" % scratch)
        meta["confirmed"] = (meta["demo_without_change"] == 0 and meta["demo_with_change"] != 0 and " failed" not in meta["unit_tests_with_change"])
    # ---- our checks against it
    checks = (a.checks or a.prop).split(",")
    rc, o = sh("git -C /repo apply %s" % patch)
    assert rc == 0, "patch does not apply to /repo: " + o
    results = {}
    try:
        for c in checks:
            t0 = time.time()
            rc, o = sh("bin/vcheck %s --tier %s" % (c, a.tier), cwd=ROOT, timeout=7200)
            lines = [ln for ln in o.splitlines() if ln.startswith(("VIOLATION", "  condition=", "HARNESS-ERROR", c + " tier"))]
            results[c] = {"exit": rc, "wall_s": round(time.time() - t0, 1), "lines": lines[:8]}
            meta["ran"].append("bin/vcheck %s --tier %s with the patch applied to /repo -> exit %d" % (c, a.tier, rc))
    finally:
        sh("git -C /repo checkout -- .")
        sh("git checkout -- evidence", cwd=ROOT)
        sh("git clean -fdq replays", cwd=ROOT)
    meta["checks"] = results
    meta["detected_by"] = [c for c, r in results.items() if r["exit"] == 1]
    json.dump(meta, open(os.path.join(out, "meta.json"), "w"), indent=1)
    print(json.dumps(meta, indent=1)[:3000])


if __name__ == "__main__":
    main()
